"""Neutral, JSON-able term model and its mapping to the two integrations.

term := ["iri", s] | ["bnode", label] | ["lit", lex, lang|None, datatype|None]
      | ["default"] | ["triple", s, p, o]
statement := [s, p, o] or [s, p, o, g]
"""
from __future__ import annotations

from vlib import env  # noqa: F401

XSD_STRING = "http://www.w3.org/2001/XMLSchema#string"


def norm(t):
    """Canonical form used for comparisons: xsd:string typed literal == plain literal."""
    k = t[0]
    if k == "lit":
        lang = t[2] or None
        dt = t[3] or None
        if dt == XSD_STRING:
            dt = None
        return ("lit", t[1], lang, dt)
    if k == "triple":
        return ("triple", norm(t[1]), norm(t[2]), norm(t[3]))
    return tuple(t)


def norm_stmt(st):
    return tuple(norm(t) for t in st)


def term_kinds(t, out=None):
    out = set() if out is None else out
    out.add(t[0])
    if t[0] == "triple":
        for x in t[1:]:
            term_kinds(x, out)
    if t[0] == "lit":
        if t[2]:
            out.add("lang")
        if t[3]:
            out.add("typed")
    return out


def iris_of(t, out=None):
    """IRI strings in wire order (depth first), datatypes separately."""
    out = [] if out is None else out
    if t[0] == "iri":
        out.append(t[1])
    elif t[0] == "triple":
        for x in t[1:]:
            iris_of(x, out)
    return out


def datatypes_of(t, out=None):
    out = [] if out is None else out
    if t[0] == "lit" and t[3] and t[3] != XSD_STRING:
        out.append(t[3])
    elif t[0] == "triple":
        for x in t[1:]:
            datatypes_of(x, out)
    return out


# ---------------------------------------------------------------------- generic
def to_generic(t):
    from pyjelly.integrations.generic import generic_sink as gs

    k = t[0]
    if k == "iri":
        return gs.IRI(t[1])
    if k == "bnode":
        return gs.BlankNode(t[1])
    if k == "lit":
        return gs.Literal(t[1], t[2], t[3])
    if k == "default":
        return gs.DefaultGraph
    if k == "triple":
        return gs.Triple(to_generic(t[1]), to_generic(t[2]), to_generic(t[3]))
    raise ValueError(t)


def to_generic_stmt(st):
    from pyjelly.integrations.generic import generic_sink as gs

    terms = [to_generic(t) for t in st]
    return gs.Triple(*terms) if len(terms) == 3 else gs.Quad(*terms)


def from_generic(obj):
    from pyjelly.integrations.generic import generic_sink as gs

    if isinstance(obj, gs.IRI):
        v = obj._iri
        return ["iri", v] if type(v) is str else ["BAD", "IRI(" + repr(v) + ")"]
    if isinstance(obj, gs.BlankNode):
        v = obj._identifier
        return ["bnode", v] if type(v) is str else ["BAD", repr(obj)]
    if isinstance(obj, gs.Literal):
        return ["lit", obj._lex, obj._langtag, obj._datatype]
    if obj is gs.DefaultGraph:
        return ["default"]
    if isinstance(obj, gs.Triple):
        return ["triple", from_generic(obj[0]), from_generic(obj[1]), from_generic(obj[2])]
    return ["BAD", repr(obj)]


def from_generic_stmt(st):
    from pyjelly.integrations.generic import generic_sink as gs

    if isinstance(st, gs.Prefix):
        return ["prefix", st.prefix, from_generic(st.iri)]
    if not isinstance(st, (gs.Triple, gs.Quad)):
        return ["BAD", repr(st)]
    return [from_generic(t) for t in st]


# ----------------------------------------------------------------------- rdflib
def to_rdflib(t):
    import rdflib
    from rdflib.graph import DATASET_DEFAULT_GRAPH_ID

    k = t[0]
    if k == "iri":
        return rdflib.URIRef(t[1])
    if k == "bnode":
        return rdflib.BNode(t[1])
    if k == "lit":
        # normalize=False: the literal holds the lexical form it was given ("01"^^xsd:integer stays "01"), which is what
        # must come back; what rdflib's own normalisation would do to it is not pyjelly's business
        return rdflib.Literal(t[1], lang=t[2], datatype=rdflib.URIRef(t[3]) if t[3] else None, normalize=False)
    if k == "default":
        return DATASET_DEFAULT_GRAPH_ID
    raise ValueError(t)


def to_rdflib_stmt(st):
    from pyjelly.integrations.rdflib.parse import Quad, Triple

    terms = [to_rdflib(t) for t in st]
    return Triple(*terms) if len(terms) == 3 else Quad(*terms)


def from_rdflib(obj, graph_pos=False):
    import rdflib
    from rdflib.graph import DATASET_DEFAULT_GRAPH_ID

    if graph_pos and isinstance(obj, rdflib.URIRef) and obj == DATASET_DEFAULT_GRAPH_ID:
        return ["default"]
    if isinstance(obj, rdflib.Literal):
        return ["lit", str(obj), obj.language, str(obj.datatype) if obj.datatype is not None else None]
    if isinstance(obj, rdflib.URIRef):
        return ["iri", str(obj)]
    if isinstance(obj, rdflib.BNode):
        return ["bnode", str(obj)]
    return ["BAD", repr(obj)]


def from_rdflib_stmt(st):
    from pyjelly.integrations.rdflib import parse as rp

    if isinstance(st, rp.Prefix):
        return ["prefix", st.prefix, from_rdflib(st.iri)]
    if not isinstance(st, tuple) or len(st) not in (3, 4):
        return ["BAD", repr(st)]
    out = [from_rdflib(t) for t in st[:3]]
    if len(st) == 4:
        out.append(from_rdflib(st[3], graph_pos=True))
    return out


def rdflib_canon(t):
    """What the neutral term looks like after rdflib object construction (rdflib is ground truth)."""
    return from_rdflib(to_rdflib(t), graph_pos=(t[0] == "default"))
