"""E - reference encoder: a model of "any conformant producer".

Given ground-truth events and a *choice tape* (list of small ints, consumed cyclically; an empty tape means
"the plain producer"), emits rows in the row model of wire.py, making every legal choice from the tape:
IRI split point, slot for a new entry (arbitrary eviction), explicit id vs 0, redundant / early entries,
explicit repeat vs elision, repeated options rows, graph grouping, frame partition, empty frames, metadata.
E tracks the decoder state it induces, so the output is valid by construction; callers assert R(E(x)) == x.
"""
from __future__ import annotations

from collections import Counter

from vlib import wire
from vlib.terms import XSD_STRING

PHYS = {"TRIPLES": 1, "QUADS": 2, "GRAPHS": 3}


class Tape:
    def __init__(self, ints):
        self.ints = list(ints or [])
        self.i = 0

    def next(self) -> int:
        if not self.ints:
            return 0
        v = self.ints[self.i % len(self.ints)]
        # decorrelate successive laps over a short tape
        v = (v + (self.i // len(self.ints)) * 7) % 256 if self.i >= len(self.ints) and v else v
        self.i += 1
        return v

    def pick(self, n: int) -> int:
        return self.next() % n if n > 1 else (self.next() and 0)

    def chance(self, k: int) -> bool:
        """True with 'probability' 1/k; never for the zero tape."""
        return self.next() % k == k - 1


class CannotEncode(Exception):
    pass


class TableState:
    def __init__(self, size):
        self.size = size
        self.slots: dict[int, str] = {}
        self.last_assigned = 0

    def resident(self, value):
        return [i for i, v in self.slots.items() if v == value]


class RefEncoder:
    def __init__(self, *, phys: str, sizes, tape, version: int = 1, logical: int = 0, stream_name: str = "",
                 generalized: bool = True, rdf_star: bool = True):
        self.phys = phys
        self.t = Tape(tape)
        self.names = TableState(sizes[0])
        self.prefixes = TableState(sizes[1])
        self.datatypes = TableState(sizes[2])
        self.last_prefix_id = 0
        self.last_name_id = 0
        self.repeated = {"s": None, "p": None, "o": None, "g": None}
        self.rows: list = []
        self.log: Counter = Counter()
        self.options = {
            "stream_name": stream_name,
            "physical_type": PHYS[phys],
            "generalized_statements": generalized,
            "rdf_star": rdf_star,
            "max_name_table_size": sizes[0],
            "max_prefix_table_size": sizes[1],
            "max_datatype_table_size": sizes[2],
            "logical_type": logical,
            "version": version,
        }
        self.rows.append(("options", dict(self.options)))
        self.pinned = {"name": set(), "prefix": set(), "datatype": set()}
        self.graph_open = None

    # ----------------------------------------------------------------- entries
    def _define(self, table: TableState, kind: str, value: str, pending: list):
        """Put `value` into some slot not pinned by the row being built; returns the slot id."""
        pinned = self.pinned[kind]
        nxt = table.last_assigned + 1
        candidates = [i for i in range(1, table.size + 1) if i not in pinned]
        if not candidates:
            raise CannotEncode(f"{kind} table of size {table.size} cannot hold this statement")
        free = [i for i in candidates if i not in table.slots]
        if nxt <= table.size and nxt in candidates and not self.t.chance(3):
            slot = nxt
        else:
            # arbitrary eviction / arbitrary free slot
            pool = candidates if (not free or self.t.chance(2)) else free
            if len(pool) > 64:
                pool = pool[:32] + pool[-32:]
            slot = pool[self.t.pick(len(pool))]
            if slot != nxt:
                self.log["non_sequential_slot"] += 1
            if slot in table.slots and free:
                self.log["evict_while_free"] += 1
        if slot in table.slots:
            self.log["eviction"] += 1
        if slot == nxt and not self.t.chance(3):
            raw = 0
        else:
            raw = slot
            if slot == nxt:
                self.log["explicit_id_where_zero_possible"] += 1
        pending.append((kind, raw, value))
        table.slots[slot] = value
        table.last_assigned = slot
        return slot

    def _lookup(self, table: TableState, kind: str, value: str, pending: list) -> int:
        res = table.resident(value)
        usable = res
        if usable and not self.t.chance(8):
            slot = usable[self.t.pick(len(usable))]
            if len(usable) > 1:
                self.log["duplicate_value_slots"] += 1
        else:
            if usable:
                self.log["redundant_entry"] += 1
            slot = self._define(table, kind, value, pending)
        self.pinned[kind].add(slot)
        return slot

    # ------------------------------------------------------------------- terms
    def _split(self, iri: str):
        if self.prefixes.size == 0:
            return None, iri
        # default: last '#', else last '/'
        cut = 0
        for sep in "#/":
            k = iri.rfind(sep)
            if k >= 0:
                cut = k + 1
                break
        if self.t.chance(4):
            cut = self.t.pick(len(iri) + 1)
            self.log["odd_split"] += 1
        return iri[:cut], iri[cut:]

    def _iri(self, iri: str, pending: list):
        prefix, name = self._split(iri)
        if prefix is None:
            pid_raw = 0
        elif prefix == "" and self.last_prefix_id == 0 and not self.t.chance(4):
            pid_raw = 0  # "no prefix yet" form
            self.log["empty_prefix_via_zero"] += 1
        else:
            pid = self._lookup(self.prefixes, "prefix", prefix, pending)
            if pid == self.last_prefix_id and not self.t.chance(3):
                pid_raw = 0
            else:
                if pid == self.last_prefix_id:
                    self.log["explicit_prefix_where_zero_possible"] += 1
                pid_raw = pid
            self.last_prefix_id = pid
        nid = self._lookup(self.names, "name", name, pending)
        if nid == self.last_name_id + 1 and not self.t.chance(3):
            nid_raw = 0
        else:
            if nid == self.last_name_id + 1:
                self.log["explicit_name_where_zero_possible"] += 1
            nid_raw = nid
        self.last_name_id = nid
        return ("iri", pid_raw, nid_raw)

    def _literal(self, t, pending: list):
        _, lex, lang, dt = t
        if lang:
            return ("lit", lex, ("lang", lang))
        if not dt:
            return ("lit", lex, None)
        if dt == XSD_STRING and (self.datatypes.size == 0 or not self.t.chance(2)):
            return ("lit", lex, None)
        if self.datatypes.size == 0:
            raise CannotEncode("typed literal with disabled datatype table")
        did = self._lookup(self.datatypes, "datatype", dt, pending)
        return ("lit", lex, ("dt", did))

    def _term(self, t, pending: list):
        k = t[0]
        if k == "iri":
            return self._iri(t[1], pending)
        if k == "bnode":
            return ("bnode", t[1])
        if k == "lit":
            return self._literal(t, pending)
        if k == "default":
            return ("default",)
        if k == "triple":
            return ("triple", {s: self._term(x, pending) for s, x in zip("spo", t[1:])})
        raise ValueError(t)

    # -------------------------------------------------------------------- rows
    def _begin_row(self):
        self.pinned = {"name": set(), "prefix": set(), "datatype": set()}

    def _flush(self, pending, row, early=None):
        for kind, raw, value in pending:
            self.rows.append((kind, raw, value))
        self.rows.append(row)

    def _stmt(self, terms, slots):
        self._begin_row()
        pending: list = []
        st = {}
        for slot, t in zip(slots, terms):
            key = _key(t)
            if self.repeated[slot] is not None and self.repeated[slot] == key and not self.t.chance(4):
                st[slot] = None
                self.log["elision"] += 1
            else:
                if self.repeated[slot] == key:
                    self.log["unelided_repeat"] += 1
                st[slot] = self._term(t, pending)
                self.repeated[slot] = key
        return pending, st

    def early_entry(self, future_iris):
        """Define an entry for a string a later statement will use (legal: entries may come any time)."""
        if not future_iris or not self.t.chance(6):
            return
        iri = future_iris[self.t.pick(len(future_iris))]
        self._begin_row()
        pending: list = []
        prefix, name = self._split(iri)
        which = self.t.pick(2)
        if which == 0 or prefix is None:
            if not self.names.resident(name):
                self._define(self.names, "name", name, pending)
        elif not self.prefixes.resident(prefix):
            self._define(self.prefixes, "prefix", prefix, pending)
        for kind, raw, value in pending:
            self.rows.append((kind, raw, value))
            self.log["early_entry"] += 1

    def triple(self, terms):
        pending, st = self._stmt(terms, "spo")
        self._flush(pending, ("triple", st))

    def quad(self, terms):
        pending, st = self._stmt(terms, "spog")
        self._flush(pending, ("quad", st))

    def graph_start(self, g):
        self._begin_row()
        pending: list = []
        gt = self._term(g, pending)
        self._flush(pending, ("graph_start", gt))
        self.graph_open = _key(g)

    def graph_end(self):
        self.rows.append(("graph_end",))
        self.graph_open = None

    def namespace(self, name, iri):
        self._begin_row()
        pending: list = []
        it = self._iri(iri, pending)
        self._flush(pending, ("namespace", name, it))

    def repeat_options(self):
        self.rows.append(("options", dict(self.options)))
        self.log["repeated_options"] += 1


def _key(t):
    """Identity of a term for the repeated-term rule: wire-level identity (xsd:string typed == plain)."""
    from vlib.terms import norm

    return norm(t)


def encode_case(case) -> dict:
    """case: {phys, statements, namespaces?: [[pos, name, iri]], sizes, version?, tape, cuts?, ...}

    Returns {"frames": [frame dicts], "bytes": ..., "delimited": bool, "log": Counter, "truth": events}
    """
    phys = case["phys"]
    tape = case.get("tape", [])
    namespaces = sorted(case.get("namespaces", []), key=lambda x: x[0])
    version = case.get("version", 2 if namespaces else 1)
    enc = RefEncoder(phys=phys, sizes=case["sizes"], tape=tape, version=version,
                     logical=case.get("logical", 0), stream_name=case.get("stream_name", ""),
                     generalized=case.get("generalized", True), rdf_star=case.get("rdf_star", True))
    t = enc.t
    stmts = case["statements"]
    truth = []
    ns_i = 0
    all_iris = []
    from vlib.terms import iris_of

    per_stmt_iris = [[i for term in s for i in iris_of(term)] for s in stmts]
    for i, s in enumerate(stmts):
        while ns_i < len(namespaces) and namespaces[ns_i][0] <= i:
            _, name, iri = namespaces[ns_i]
            if phys == "GRAPHS" and enc.graph_open is not None and t.chance(2):
                enc.graph_end()
            enc.namespace(name, iri)
            truth.append(["prefix", name, ["iri", iri]])
            ns_i += 1
        future = [x for later in per_stmt_iris[i + 1:i + 4] for x in later]
        enc.early_entry(future)
        if t.chance(12):
            enc.repeat_options()
        if phys == "TRIPLES":
            enc.triple(s)
            truth.append([list(x) for x in s])
        elif phys == "QUADS":
            enc.quad(s)
            truth.append([list(x) for x in s])
        else:
            gkey = _key(s[3])
            if enc.graph_open is not None and (enc.graph_open != gkey or t.chance(5)):
                if enc.graph_open == gkey:
                    enc.log["split_same_graph"] += 1
                enc.graph_end()
            if enc.graph_open is None:
                enc.graph_start(s[3])
            enc.triple(s[:3])
            truth.append([list(x) for x in s])
    while ns_i < len(namespaces):
        _, name, iri = namespaces[ns_i]
        if phys == "GRAPHS" and enc.graph_open is not None:
            enc.graph_end()
        enc.namespace(name, iri)
        truth.append(["prefix", name, ["iri", iri]])
        ns_i += 1
    if phys == "GRAPHS" and enc.graph_open is not None:
        enc.graph_end()
    if phys == "GRAPHS" and case.get("empty_graphs"):
        for g in case["empty_graphs"]:
            enc.graph_start(g)
            enc.graph_end()
            enc.log["empty_graph"] += 1

    rows = enc.rows
    delimited = case.get("delimited", True)
    frames = partition(rows, case.get("cuts"), t, delimited, case.get("metadata"), enc.log)
    data = wire.enc_stream(frames, delimited)
    return {"frames": frames, "bytes": data, "delimited": delimited, "log": enc.log, "truth": truth,
            "options": enc.options}


def partition(rows, cuts, tape: Tape, delimited: bool, metadata, log):
    """Cut rows into frames. cuts: None -> tape-driven; else list of row indices; -1 entries insert empty frames."""
    if not delimited:
        return [{"rows": list(rows), "metadata": [(k, bytes.fromhex(v)) for k, v in metadata[0]] if metadata else []}]
    frames = []
    cur = []
    if cuts is None:
        if tape.chance(5):
            frames.append({"rows": [], "metadata": []})
            log["empty_frame"] += 1
            log["leading_empty_frame"] += 1
        for r in rows:
            cur.append(r)
            if tape.chance(3):
                frames.append({"rows": cur, "metadata": []})
                cur = []
                if tape.chance(5):
                    frames.append({"rows": [], "metadata": []})
                    log["empty_frame"] += 1
        if cur:
            frames.append({"rows": cur, "metadata": []})
        if tape.chance(6):
            frames.append({"rows": [], "metadata": []})
            log["empty_frame"] += 1
    else:
        cutset = sorted({c for c in cuts if 0 < c < len(rows)})
        prev = 0
        for c in [*cutset, len(rows)]:
            frames.append({"rows": list(rows[prev:c]), "metadata": []})
            prev = c
    if metadata:
        for i, f in enumerate(frames):
            m = metadata[i % len(metadata)]
            f["metadata"] = [(k, bytes.fromhex(v)) for k, v in m]
            if m:
                log["frame_metadata"] += 1
    if len(frames) > 1:
        log["multi_frame"] += 1
    return frames


def naive_size(case_statements, phys, sizes, namespaces=(), options=None) -> int:
    """Bytes of the naive encoding: one entry per use, explicit ids, no elision, one graph per quad.

    `options`: the options row actually written (so that the header, e.g. a long stream name, is the same on both sides)."""
    enc = RefEncoder(phys=phys, sizes=sizes, tape=[], version=2 if namespaces else 1)
    total_rows = [("options", dict(options) if options is not None else dict(enc.options))]
    counters = {"name": 0, "prefix": 0, "datatype": 0}
    size_of = {"name": sizes[0], "prefix": sizes[1], "datatype": sizes[2]}

    def entry(kind, value):
        counters[kind] = counters[kind] % size_of[kind] + 1
        total_rows.append((kind, counters[kind], value))
        return counters[kind]

    def term(t):
        k = t[0]
        if k == "iri":
            if sizes[1]:
                cut = 0
                for sep in "#/":
                    j = t[1].rfind(sep)
                    if j >= 0:
                        cut = j + 1
                        break
                pid = entry("prefix", t[1][:cut])
                nid = entry("name", t[1][cut:])
                return ("iri", pid, nid)
            return ("iri", 0, entry("name", t[1]))
        if k == "bnode":
            return ("bnode", t[1])
        if k == "lit":
            if t[2]:
                return ("lit", t[1], ("lang", t[2]))
            if t[3] and t[3] != XSD_STRING:
                return ("lit", t[1], ("dt", entry("datatype", t[3])))
            return ("lit", t[1], None)
        if k == "default":
            return ("default",)
        return ("triple", {s: term(x) for s, x in zip("spo", t[1:])})

    for name, iri in namespaces:
        total_rows.append(("namespace", name, term(["iri", iri])))
    for s in case_statements:
        if phys == "TRIPLES":
            total_rows.append(("triple", {k: term(x) for k, x in zip("spo", s)}))
        elif phys == "QUADS":
            total_rows.append(("quad", {k: term(x) for k, x in zip("spog", s)}))
        else:
            total_rows.append(("graph_start", term(s[3])))
            total_rows.append(("triple", {k: term(x) for k, x in zip("spo", s)}))
            total_rows.append(("graph_end",))
    return sum(len(wire.f_len(1, wire.enc_row(r))) for r in total_rows)
