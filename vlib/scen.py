"""Write scenarios shared by C01/C02/C03/C19 (and reused elsewhere): case strategies + executors."""
from __future__ import annotations

import io

from hypothesis import strategies as st

from vlib import env  # noqa: F401
from vlib import gen, pyj
from vlib import terms as T

GENERIC_ENTRIES = ["stream_frames_gen", "stream_frames_sink", "flat_to_file", "grouped_to_file", "sink_serialize"]


@st.composite
def generic_write_case(draw, max_len=14, mode=None, phys=None):
    phys = phys or draw(st.sampled_from(["TRIPLES", "QUADS", "GRAPHS"]))
    arity = 3 if phys == "TRIPLES" else 4
    mode = mode or draw(st.sampled_from(["gen", "gen", "rdf11"]))
    stmts = draw(gen.statement_seq(arity=arity, mode=mode, max_len=max_len))
    if phys == "GRAPHS":
        entry = draw(st.sampled_from(["stream_frames_gen", "stream_frames_sink"]))
    else:
        entry = draw(st.sampled_from(GENERIC_ENTRIES))
    if not stmts and entry in ("flat_to_file", "sink_serialize", "grouped_to_file"):
        entry = "stream_frames_gen"
    delimited = True
    if entry in ("stream_frames_gen", "stream_frames_sink"):
        delimited = draw(st.integers(0, 3)) != 0
    case = {
        "integration": "generic",
        "entry": entry,
        "phys": phys,
        "logical": 1 if phys == "TRIPLES" else 2,
        "delimited": delimited,
        "frame_size": draw(gen.frame_sizes),
        "preset": draw(gen.preset_for(stmts)),
        "params": {"generalized": True, "rdf_star": True, "stream_name": draw(gen.stream_names)},
        "statements": stmts,
        "reader": draw(st.sampled_from(["flat", "flat", "to_graph", "sink_parse"])),
    }
    if entry == "sink_serialize":
        case["preset"] = [4000, 150, 32]
        case["frame_size"] = 250
        case["params"]["stream_name"] = ""
    return case


def write_generic(case):
    """-> (bytes, delimited). Raises whatever pyjelly raises."""
    from pyjelly.integrations.generic import serialize as gser

    entry = case["entry"]
    stmts = case["statements"]
    if entry == "stream_frames_gen":
        data, _ = pyj.write_stream_frames(stmts, case, "generic", as_sink=False)
        return data, case["delimited"]
    if entry == "stream_frames_sink":
        data, _ = pyj.write_stream_frames(stmts, case, "generic", as_sink=True)
        return data, case["delimited"]
    out = io.BytesIO()
    if entry == "flat_to_file":
        gser.flat_stream_to_file((s for s in pyj.conv_stmts(stmts, "generic")), out, options=pyj.make_options(case))
    elif entry == "grouped_to_file":
        gser.grouped_stream_to_file((s for s in [pyj.generic_sink(stmts)]), out, options=pyj.make_options(case))
    elif entry == "sink_serialize":
        pyj.generic_sink(stmts).serialize(out)
    else:
        raise ValueError(entry)
    return out.getvalue(), True


def read_generic(data, reader):
    """-> list of neutral events in order."""
    from pyjelly.integrations.generic.generic_sink import GenericStatementSink

    if reader == "flat":
        return pyj.parse_flat(data, "generic")
    if reader == "to_graph":
        sink = pyj.parse_to_graph(data, "generic")
    else:
        sink = GenericStatementSink()
        sink.parse(io.BytesIO(data))
    return [["prefix", p, i] for p, i in pyj.sink_namespaces(sink, "generic")] + pyj.sink_events(sink, "generic")


def expected_generic(case):
    return [[list(T.norm(t)) for t in s] for s in case["statements"]]


def normalize_events(events):
    out = []
    for e in events:
        if e and e[0] == "prefix":
            out.append(e)
        elif e and e[0] == "BAD":
            out.append(e)
        else:
            out.append([list(T.norm(t)) if t[0] != "BAD" else t for t in e])
    return out


def features(case, data=None, delimited=True):
    """Labels for the case distribution + the non-triviality inputs (uses R's audit of the bytes)."""
    from vlib import jellyref

    labels = []
    stmts = case["statements"]
    kinds = set()
    for s in stmts:
        for t in s:
            T.term_kinds(t, kinds)
    if "triple" in kinds:
        labels.append("quoted")
    if any(s[1][0] != "iri" or s[0][0] in ("lit",) or (len(s) > 3 and s[3][0] == "lit") for s in stmts):
        labels.append("generalized")
    nt_bits = set(labels)
    if data is not None:
        res = jellyref.decode(data, delimited, mode="strict")
        if len(res.frame_events) >= 2:
            nt_bits.add("multi_frame")
            labels.append("multi_frame")
        ev = any(a.get("overwrote") is not None for a in res.audit)
        el = any(a.get("elided") for a in res.audit)
        if ev:
            nt_bits.add("eviction")
            labels.append("eviction")
        if el:
            nt_bits.add("elision")
            labels.append("elision")
    if not delimited:
        labels.append("non_delimited")
    labels.append("phys_" + case["phys"])
    labels.append("entry_" + case["entry"])
    nontrivial = len(stmts) >= 2 and bool(nt_bits)
    return labels, nontrivial
