"""Write scenarios shared by C01/C02/C03/C19 (and reused elsewhere): case strategies + executors."""
from __future__ import annotations

import io

from hypothesis import strategies as st

from vlib import env  # noqa: F401
from vlib import gen, pyj
from vlib import terms as T

GENERIC_ENTRIES = ["stream_frames_gen", "stream_frames_sink", "flat_to_file", "grouped_to_file", "sink_serialize",
                   "flat_to_file_default", "grouped_to_file_default"]


@st.composite
def generic_write_case(draw, max_len=14, mode=None, phys=None):
    phys = phys or draw(st.sampled_from(["TRIPLES", "QUADS", "GRAPHS"]))
    arity = 3 if phys == "TRIPLES" else 4
    mode = mode or draw(st.sampled_from(["gen", "gen", "rdf11"]))
    stmts = draw(gen.statement_seq(arity=arity, mode=mode, max_len=max_len))
    if phys == "GRAPHS":
        entry = draw(st.sampled_from(["stream_frames_gen", "stream_frames_sink"]))
    else:
        entry = draw(st.sampled_from(GENERIC_ENTRIES))
    if not stmts and entry in ("flat_to_file", "sink_serialize", "grouped_to_file", "flat_to_file_default", "grouped_to_file_default"):
        entry = "stream_frames_gen"
    delimited = True
    if entry in ("stream_frames_gen", "stream_frames_sink"):
        delimited = draw(st.integers(0, 3)) != 0
    case = {
        "integration": "generic",
        "entry": entry,
        "phys": phys,
        "logical": 1 if phys == "TRIPLES" else 2,
        "delimited": delimited,
        "frame_size": draw(gen.frame_sizes),
        "preset": draw(gen.preset_for(stmts)),
        "params": {"generalized": True, "rdf_star": True, "stream_name": draw(gen.stream_names)},
        "statements": stmts,
        "reader": draw(st.sampled_from(["flat", "flat", "to_graph", "sink_parse"])),
        "options_history": draw(st.sampled_from([None, None, None, "abandoned"])),
    }
    if entry in ("sink_serialize", "flat_to_file_default", "grouped_to_file_default"):
        case["preset"] = [4000, 150, 32]
        case["frame_size"] = 250
        case["params"]["stream_name"] = ""
    return case


def write_generic(case):
    """-> (bytes, delimited). Raises whatever pyjelly raises."""
    from pyjelly.integrations.generic import serialize as gser

    entry = case["entry"]
    stmts = case["statements"]
    if entry == "stream_frames_gen":
        data, _ = pyj.write_stream_frames(stmts, case, "generic", as_sink=False)
        return data, case["delimited"]
    if entry == "stream_frames_sink":
        data, _ = pyj.write_stream_frames(stmts, case, "generic", as_sink=True)
        return data, case["delimited"]
    out = io.BytesIO()
    if entry == "flat_to_file":
        gser.flat_stream_to_file((s for s in pyj.conv_stmts(stmts, "generic")), out, options=pyj.make_options(case))
    elif entry == "grouped_to_file":
        gser.grouped_stream_to_file((s for s in [pyj.generic_sink(stmts)]), out, options=pyj.make_options(case))
    elif entry == "sink_serialize":
        pyj.generic_sink(stmts).serialize(out)
    elif entry == "flat_to_file_default":
        gser.flat_stream_to_file((s for s in pyj.conv_stmts(stmts, "generic")), out)
    elif entry == "grouped_to_file_default":
        gser.grouped_stream_to_file((s for s in [pyj.generic_sink(stmts)]), out)
    else:
        raise ValueError(entry)
    return out.getvalue(), True


def read_generic(data, reader):
    """-> list of neutral events in order."""
    from pyjelly.integrations.generic.generic_sink import GenericStatementSink

    if reader == "flat":
        return pyj.parse_flat(data, "generic")
    if reader == "to_graph":
        sink = pyj.parse_to_graph(data, "generic")
    else:
        sink = GenericStatementSink()
        sink.parse(io.BytesIO(data))
    return [["prefix", p, i] for p, i in pyj.sink_namespaces(sink, "generic")] + pyj.sink_events(sink, "generic")


def expected_generic(case):
    return [[list(T.norm(t)) for t in s] for s in case["statements"]]


def normalize_events(events):
    out = []
    for e in events:
        if e and e[0] == "prefix":
            out.append(e)
        elif e and e[0] == "BAD":
            out.append(e)
        else:
            out.append([list(T.norm(t)) if t[0] != "BAD" else t for t in e])
    return out


def features(case, data=None, delimited=True):
    """Labels for the case distribution + the non-triviality inputs (uses R's audit of the bytes)."""
    from vlib import jellyref

    labels = []
    stmts = case["statements"]
    kinds = set()
    for s in stmts:
        for t in s:
            T.term_kinds(t, kinds)
    if "triple" in kinds:
        labels.append("quoted")
    if any(s[1][0] != "iri" or s[0][0] in ("lit",) or (len(s) > 3 and s[3][0] == "lit") for s in stmts):
        labels.append("generalized")
    nt_bits = set(labels)
    if data is not None:
        res = jellyref.decode(data, delimited, mode="strict")
        if len(res.frame_events) >= 2:
            nt_bits.add("multi_frame")
            labels.append("multi_frame")
        ev = any(a.get("overwrote") is not None for a in res.audit)
        el = any(a.get("elided") for a in res.audit)
        if ev:
            nt_bits.add("eviction")
            labels.append("eviction")
        if el:
            nt_bits.add("elision")
            labels.append("elision")
    if not delimited:
        labels.append("non_delimited")
    labels.append("phys_" + case["phys"])
    labels.append("entry_" + case["entry"])
    nontrivial = len(stmts) >= 2 and bool(nt_bits)
    return labels, nontrivial


# ============================================================================ rdflib
RDFLIB_ENTRIES = ["serialize", "serialize_dest", "serialize_stream_only", "stream_frames", "flat_to_file", "grouped_to_file",
                  "serialize_default", "flat_to_file_default", "grouped_to_file_default", "serialize_path"]
GROUPED_FOR = {"TRIPLES": [3, 13], "QUADS": [4, 14, 114], "GRAPHS": [4, 14, 114]}


@st.composite
def rdflib_write_case(draw, max_len=14, phys=None):
    phys = phys or draw(st.sampled_from(["TRIPLES", "QUADS", "GRAPHS"]))
    arity = 3 if phys == "TRIPLES" else 4
    stmts = draw(gen.statement_seq(arity=arity, mode="rdflib", max_len=max_len))
    entry = draw(st.sampled_from(RDFLIB_ENTRIES))
    if phys == "GRAPHS" and entry in ("flat_to_file", "grouped_to_file", "serialize_default", "flat_to_file_default",
                                      "grouped_to_file_default", "serialize_path"):
        entry = "stream_frames"  # guess_stream never picks GraphStream
    if not stmts and entry in ("flat_to_file", "flat_to_file_default"):
        entry = "serialize"
    flat_logical = 1 if phys == "TRIPLES" else 2
    delimited = True
    logical = flat_logical
    if entry in ("serialize", "serialize_dest", "serialize_stream_only", "stream_frames"):
        delimited = draw(st.integers(0, 3)) != 0
    if delimited and entry != "flat_to_file" and draw(st.booleans()):
        logical = draw(st.sampled_from(GROUPED_FOR[phys]))
    if entry in ("serialize_default", "flat_to_file_default", "grouped_to_file_default"):
        # nothing is passed: the library guesses FLAT_* / default tables / 250 rows / delimited
        return {"integration": "rdflib", "entry": entry, "phys": phys, "logical": flat_logical, "delimited": True,
                "frame_size": 250, "preset": [4000, 150, 32],
                "params": {"generalized": False, "rdf_star": False, "stream_name": ""}, "statements": stmts,
                "reader": draw(st.sampled_from(["parse", "to_graph", "flat", "grouped", "parse_path", "parse_path_guess_format"]))}
    empty_graphs = []
    if phys != "TRIPLES" and entry not in ("flat_to_file",) and draw(st.integers(0, 3)) == 0:
        # named graphs registered in the Dataset that hold no triples (ds.graph(name), or left after removals)
        empty_graphs = draw(st.lists(st.one_of(gen.iri_pool, st.sampled_from([["bnode", "eg"], ["iri", "http://empty.example/g#e"]])),
                                     min_size=1, max_size=2))
    return {
        "integration": "rdflib",
        "entry": entry,
        "phys": phys,
        "empty_graphs": empty_graphs,
        # the rdflib objects handed over are sometimes equal-but-not-identical copies of what a fresh build gives
        # (a Dataset that went through pickle / deepcopy, terms rebuilt from strings): identity must not matter
        "object_copy": draw(st.sampled_from([None, None, "pickle", "deepcopy"])),
        "options_history": draw(st.sampled_from([None, None, None, "abandoned"])),
        "logical": logical,
        "delimited": delimited,
        "frame_size": draw(gen.frame_sizes),
        "preset": draw(gen.preset_for(stmts)),
        "params": {"generalized": False, "rdf_star": False, "stream_name": draw(gen.stream_names)},
        "statements": stmts,
        "reader": draw(st.sampled_from(["parse", "to_graph", "flat", "grouped", "parse_path", "parse_path_guess_format"])),
    }


def rdflib_container(stmts, phys, bindings=None, empty_graphs=()):
    import rdflib
    from rdflib import Dataset, Graph

    if phys == "TRIPLES":
        g = Graph(bind_namespaces="none") if bindings is not None else Graph()
        for s in stmts:
            g.add(tuple(T.to_rdflib(t) for t in s[:3]))
    else:
        g = Dataset()  # (no bind_namespaces argument: a Dataset always starts with rdflib's default bindings)
        for s in stmts:
            trip = tuple(T.to_rdflib(t) for t in s[:3])
            if s[3][0] == "default":
                g.add(trip)
            else:
                g.add((*trip, g.graph(T.to_rdflib(s[3]))))
    if phys != "TRIPLES":
        for name in empty_graphs or ():
            g.graph(T.to_rdflib(name))  # registered; stays empty unless the statements name it too
    for pfx, ns in bindings or ():
        g.bind(pfx, rdflib.URIRef(ns), override=True, replace=True)
    return g


def _copied(obj, how):
    """An equal-but-not-identical copy of an rdflib container. Precondition: the copy holds the same statements (rdflib's
    pickling re-normalises literals, which can change - and even desynchronise - what the store holds; then the
    original is used)."""
    if how not in ("pickle", "deepcopy"):
        return obj
    if how == "pickle":
        import pickle

        c = pickle.loads(pickle.dumps(obj))
    else:
        import copy

        c = copy.deepcopy(obj)

    def content(x):
        import rdflib

        if isinstance(x, rdflib.Dataset):
            via_quads = {repr(T.norm_stmt(s)) for s in pyj.sink_events(x, "rdflib")}
            via_graphs = {repr(T.norm_stmt([T.from_rdflib(a), T.from_rdflib(b), T.from_rdflib(c_), T.from_rdflib(g.identifier, graph_pos=True)]))
                          for g in x.graphs() for a, b, c_ in g}
            return via_quads if via_quads == via_graphs else None
        return {repr(T.norm_stmt(s)) for s in pyj.sink_events(x, "rdflib")}

    a, b = content(obj), content(c)
    return c if a is not None and a == b else obj


def write_rdflib(case):
    """-> (bytes, delimited)."""
    from pyjelly.integrations.rdflib import serialize as rser

    entry = case["entry"]
    stmts = case["statements"]
    phys = case["phys"]

    def rdflib_container(stmts, phys):  # the case's container, with its registered-but-empty graphs
        g = globals()["rdflib_container"](stmts, phys, empty_graphs=case.get("empty_graphs"))
        return _copied(g, case.get("object_copy"))

    def native(stmts):
        out = pyj.conv_stmts(stmts, "rdflib")
        if case.get("object_copy"):  # statement generators: every IRI rebuilt from its string form
            import rdflib

            out = [type(x)(*[rdflib.URIRef(str(t)) if type(t) is rdflib.URIRef else t for t in x]) for x in out]
        return out

    if entry == "serialize_stream_only":
        # a pre-built stream object and nothing else: its own options decide flow and framing
        g = rdflib_container(stmts, phys)
        stream = pyj.make_stream(case, "rdflib")
        return g.serialize(format="jelly", encoding="jelly", stream=stream), case["delimited"]
    if entry in ("serialize", "serialize_dest"):
        g = rdflib_container(stmts, phys)
        stream = pyj.make_stream(case, "rdflib")
        if entry == "serialize":
            data = g.serialize(format="jelly", encoding="jelly", stream=stream, options=stream.options)
        else:
            out = io.BytesIO()
            g.serialize(destination=out, format="jelly", stream=stream, options=stream.options)
            data = out.getvalue()
        return data, case["delimited"]
    if entry == "stream_frames":
        g = rdflib_container(stmts, phys)
        stream = pyj.make_stream(case, "rdflib")
        return pyj.frames_to_bytes(rser.stream_frames(stream, g), case["delimited"]), case["delimited"]
    out = io.BytesIO()
    if entry == "serialize_default":
        # no options, no stream: everything guessed from the container (guess_options / guess_stream)
        return rdflib_container(stmts, phys).serialize(format="jelly", encoding="jelly"), True
    if entry == "serialize_path":
        import os

        from vlib import iosim

        path = iosim.temp_file(b"") + ".jelly"
        try:
            stream = pyj.make_stream(case, "rdflib")
            rdflib_container(stmts, phys).serialize(destination=path, format="jelly", stream=stream, options=stream.options)
            with open(path, "rb") as fh:
                return fh.read(), case["delimited"]
        finally:
            for p_ in (path, path[:-6]):
                if os.path.exists(p_):
                    os.unlink(p_)
    if entry == "flat_to_file":
        rser.flat_stream_to_file((s for s in native(stmts)), out, options=pyj.make_options(case))
    elif entry == "flat_to_file_default":
        rser.flat_stream_to_file((s for s in native(stmts)), out)
    elif entry == "grouped_to_file":
        rser.grouped_stream_to_file((x for x in [rdflib_container(stmts, phys)]), out, options=pyj.make_options(case))
    elif entry == "grouped_to_file_default":
        rser.grouped_stream_to_file((x for x in [rdflib_container(stmts, phys)]), out)
    else:
        raise ValueError(entry)
    return out.getvalue(), True


def read_rdflib(data, reader, phys):
    """-> set of normalized neutral statements (tuples)."""
    from rdflib import Dataset, Graph

    if reader == "parse":
        sink = Graph() if phys == "TRIPLES" else Dataset()
        sink.parse(data=data, format="jelly")
        ev = pyj.sink_events(sink, "rdflib")
    elif reader in ("parse_path", "parse_path_guess_format"):
        import os

        from vlib import iosim

        path = iosim.temp_file(data)
        jpath = path + ".jelly"
        os.rename(path, jpath)
        try:
            sink = Graph() if phys == "TRIPLES" else Dataset()
            if reader == "parse_path":
                sink.parse(jpath, format="jelly")
            else:
                sink.parse(jpath)  # format guessed from the registered ".jelly" extension
            ev = pyj.sink_events(sink, "rdflib")
        finally:
            os.unlink(jpath)
    elif reader == "to_graph":
        ev = pyj.sink_events(pyj.parse_to_graph(data, "rdflib"), "rdflib")
    elif reader == "flat":
        ev = pyj.only_statements(pyj.parse_flat(data, "rdflib"))
    else:
        ev = [s for frame in pyj.parse_grouped(data, "rdflib") for s in frame]
    return {T.norm_stmt(s) if s[0] != "BAD" else ("BAD", repr(s)) for s in ev}


def expected_rdflib(case):
    """Ground truth = what the rdflib container built from the input holds (statement generators: the terms)."""
    if case["entry"] in ("flat_to_file", "flat_to_file_default"):
        return {T.norm_stmt([T.rdflib_canon(t) for t in s]) for s in case["statements"]}
    cont = rdflib_container(case["statements"], case["phys"], empty_graphs=case.get("empty_graphs"))
    # the object that is handed over is the ground truth (pickling an rdflib Literal re-normalises its lexical form)
    cont = _copied(cont, case.get("object_copy"))
    return {T.norm_stmt(s) for s in pyj.sink_events(cont, "rdflib")}


# ==================================================================== E-driven streams
EXOTIC = ["non_sequential_slot", "evict_while_free", "odd_split", "explicit_id_where_zero_possible",
          "explicit_name_where_zero_possible", "explicit_prefix_where_zero_possible", "early_entry",
          "redundant_entry", "unelided_repeat", "empty_frame", "repeated_options", "duplicate_value_slots",
          "split_same_graph", "empty_prefix_via_zero"]

ns_names = st.one_of(st.sampled_from(["", "ex", "a", "ü", "rdf", "x1"]), st.text(max_size=5))
ns_iris = st.one_of(st.sampled_from(gen.PREFIXES), st.builds(lambda p, l: p + l, st.sampled_from(gen.PREFIXES),
                                                              st.sampled_from(gen.LOCALS)))


@st.composite
def e_case(draw, mode=None, max_len=12, with_namespaces=True, phys=None, delimited=None):
    phys = phys or draw(st.sampled_from(["TRIPLES", "QUADS", "GRAPHS"]))
    mode = mode or draw(st.sampled_from(["gen", "rdflib", "rdflib"]))
    stmts = draw(gen.statement_seq(arity=3 if phys == "TRIPLES" else 4, mode=mode, max_len=max_len))
    nss = []
    if with_namespaces and draw(st.integers(0, 2)) == 0:
        n = draw(st.integers(1, 3))
        for _ in range(n):
            # rdflib's namespace manager refuses some prefix strings (e.g. with spaces): precondition
            name = draw(ns_names if mode != "rdflib" else st.sampled_from(["", "ex", "a", "rdf", "x1", "ns2"]))
            nss.append([draw(st.integers(0, len(stmts))), name, draw(ns_iris)])
    sizes = draw(gen.preset_for(stmts, extra_iris=1 if nss else 0, count_string=True))
    case = {
        "phys": phys,
        "mode": mode,
        "statements": stmts,
        "namespaces": nss,
        "sizes": sizes,
        "version": 2 if nss else draw(st.sampled_from([1, 1, 2])),
        "logical": draw(st.sampled_from([0, 0] + ([1, 3, 13] if phys == "TRIPLES" else [2, 4, 14, 114]))),
        "stream_name": draw(gen.stream_names),
        "delimited": draw(st.integers(0, 4)) != 0 if delimited is None else delimited,
        "tape": draw(st.lists(st.integers(0, 255), max_size=60)),
    }
    return case


# ======================================================================= any valid stream
@st.composite
def stream_source(draw, max_len=8, delimited=None, min_len=0):
    """A valid Jelly byte stream description: written by pyjelly (generic) or by the reference encoder."""
    if draw(st.booleans()):
        src = draw(e_case(max_len=max_len, delimited=delimited))
        src["source"] = "E"
    else:
        src = draw(generic_write_case(max_len=max_len, mode="gen"))
        if delimited is not None:
            src["delimited"] = delimited
            if not delimited and src["entry"] not in ("stream_frames_gen", "stream_frames_sink"):
                src["entry"] = "stream_frames_gen"
        src["source"] = "pyjelly"
    return src


def source_bytes(src):
    """-> (bytes, delimited, rdflib_ok)."""
    from vlib import jellyenc

    if src["source"] == "E":
        out = jellyenc.encode_case(src)
        return out["bytes"], out["delimited"], src["mode"] == "rdflib"
    data, delimited = write_generic(src)
    return data, delimited, False


def norm_any(evs):
    out = []
    for e in evs:
        if e and e[0] == "prefix":
            out.append(["prefix", e[1], list(e[2])])
        elif e and e[0] == "BAD":
            out.append(e)
        else:
            out.append([list(T.norm(t)) if t[0] != "BAD" else t for t in e])
    return out
