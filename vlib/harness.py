"""Runner shared by all property modules: seeding, sharding, bucketing, evidence, replay."""
from __future__ import annotations

import hashlib
import importlib
import contextlib
import json
import multiprocessing as mp
import os
import sys
import time
import traceback
from collections import Counter

from vlib import env
from vlib.env import HarnessError

NSHARDS = 16
KNOWN_FILE = os.path.join(env.VERIF, "known_findings.txt")
# sensitivity runs against scratch trees (VERIF_REPO elsewhere) must not overwrite the real evidence
EVIDENCE_DIR = os.environ.get("VERIF_EVIDENCE_DIR") or os.path.join(env.VERIF, "evidence")
REPLAY_DIR = os.path.join(env.VERIF, "replays")


# ------------------------------------------------------------------ data classes
class Violation(Exception):
    """A counterexample to a property. `signature` names the root-cause bucket."""

    def __init__(self, signature: str, message: str, case=None):
        super().__init__(f"{signature}: {message}")
        self.signature = signature
        self.message = message
        self.case = case

    def to_json(self):
        return {"signature": self.signature, "message": self.message, "case": self.case}


def case_hash(case) -> str:
    blob = json.dumps(case, sort_keys=True, default=repr, ensure_ascii=True)
    return hashlib.sha1(blob.encode()).hexdigest()[:16]


class Acc:
    """Per-shard accumulator: counts, non-trivial case hashes, samples, violations."""

    MAX_SAMPLES = 3

    def __init__(self):
        self.evaluations = 0
        self.nontrivial: set[str] = set()
        self.counters: Counter = Counter()
        self.samples: list = []
        self.violations: list[dict] = []
        self.known_hits: Counter = Counter()
        self.excluded = 0
        self.extra: dict = {}

    def case(self, case, nontrivial: bool, labels=()):
        self.evaluations += 1
        for lab in labels:
            self.counters[lab] += 1
        if nontrivial:
            h = case_hash(case)
            if h not in self.nontrivial:
                self.nontrivial.add(h)
                if len(self.samples) < self.MAX_SAMPLES:
                    self.samples.append(case)

    def count(self, label, n=1):
        self.counters[label] += n

    def to_json(self):
        return {
            "evaluations": self.evaluations,
            "nontrivial": sorted(self.nontrivial),
            "counters": dict(self.counters),
            "samples": self.samples,
            "violations": self.violations,
            "known_hits": dict(self.known_hits),
            "excluded": self.excluded,
            "extra": self.extra,
        }


def shard_seed(seed: int, shard: int, salt: str = "") -> int:
    h = hashlib.sha256(f"{seed}:{shard}:{salt}".encode()).digest()
    return int.from_bytes(h[:8], "big")


# --------------------------------------------------------------- hypothesis driver
def hyp_search(strategy, body, acc: Acc, *, seed: int, max_examples: int,
               known: set[str], max_buckets: int = 4, shrink_budget_s: float = 20.0):
    """Run `body(case, acc)` over `strategy`.

    body returns None or raises/returns a Violation.  Violations whose signature is
    in `known` are counted and do not stop the search.  A new signature is shrunk
    (bounded by shrink_budget_s), recorded, added to the ignore set and the search
    is re-entered so that one shallow defect does not hide the next.
    """
    import hypothesis
    from hypothesis import HealthCheck, Phase, given, settings

    ignore = set(known)
    for round_no in range(max_buckets + 1):
        state = {"fail": None, "t_first": None}

        def run_one(case):
            if state["t_first"] is not None and time.monotonic() - state["t_first"] > shrink_budget_s:
                return  # shrink budget used up: do not even run further candidates (a hanging one costs minutes)
            v = None
            try:
                with deadline(CASE_LIMIT_S):
                    v = body(case, acc)
            except Violation as exc:
                v = exc
            except FramesChanged as exc:
                v = Violation(f"{CURRENT_PROP}:frames-changed-after-yield", str(exc), case)
            except Hang:
                # the library did not come back within minutes on one small generated case
                v = Violation(f"{CURRENT_PROP}:hang", f"a call into the library did not return within {CASE_LIMIT_S:.0f} s", case)
            if v is None:
                return
            if v.case is None:
                v.case = case
            if v.signature in ignore:
                acc.known_hits[v.signature] += 1
                return
            now = time.monotonic()
            if state["t_first"] is None:
                state["t_first"] = now
            elif now - state["t_first"] > shrink_budget_s:
                return  # shrink budget used up: let the shrinker terminate
            if state["fail"] is None or state["fail"].signature == v.signature:
                state["fail"] = v
                raise v
            # a different bucket met while shrinking: stay on the first one
            return

        test = given(strategy)(run_one)
        test = settings(
            max_examples=max_examples,
            database=None,
            deadline=None,
            derandomize=False,
            report_multiple_bugs=False,
            print_blob=False,
            phases=(Phase.generate, Phase.shrink),
            suppress_health_check=list(HealthCheck),
        )(test)
        test = hypothesis.seed(shard_seed(seed, round_no, "hyp"))(test)
        try:
            test()
        except Violation:
            pass
        except BaseException as exc:  # Flaky after budget cut, etc.
            if state["fail"] is None:
                raise HarnessError(
                    "hypothesis run failed without a violation: "
                    + "".join(traceback.format_exception_only(type(exc), exc))
                ) from exc
        if state["fail"] is None:
            return
        v = state["fail"]
        acc.violations.append(v.to_json())
        ignore.add(v.signature)
        if round_no == max_buckets:
            return


# --------------------------------------------------------------------- known file
def load_known(prop_id: str) -> dict[str, str]:
    """signature -> description for `known:` lines of this property."""
    out: dict[str, str] = {}
    if not os.path.exists(KNOWN_FILE):
        return out
    with open(KNOWN_FILE, encoding="utf-8") as fh:
        for line in fh:
            line = line.strip()
            if not line.startswith("known:"):
                continue
            rest = line[len("known:"):].strip()
            parts = rest.split(None, 2)
            if len(parts) < 2:
                continue
            kv = dict(p.split("=", 1) for p in parts[:2] if "=" in p)
            if kv.get("property") != prop_id or "signature" not in kv:
                continue
            out[kv["signature"]] = parts[2] if len(parts) > 2 else ""
    return out


# ------------------------------------------------------------------------ workers
def _worker(args):
    modname, spec = args
    try:
        env.setup()
        mod = importlib.import_module(modname)
        global CURRENT_PROP
        CURRENT_PROP = getattr(mod, "ID", CURRENT_PROP)
        guard_module(mod)
        acc = mod.run_shard(spec)
        return ("ok", acc.to_json())
    except HarnessError as exc:
        return ("harness", f"{exc}\n{traceback.format_exc()}")
    except BaseException as exc:  # noqa: BLE001
        return ("harness", f"{type(exc).__name__}: {exc}\n{traceback.format_exc()}")


def run_pool(modname: str, specs: list[dict], procs: int = NSHARDS):
    """Run the shards in worker processes. A worker that dies (e.g. OOM-killed) is a harness error, never a hang."""
    from concurrent.futures import ProcessPoolExecutor
    from concurrent.futures.process import BrokenProcessPool

    if not specs:
        return []
    procs = max(1, min(procs, len(specs)))
    if procs == 1:
        return [_worker((modname, s)) for s in specs]
    ctx = mp.get_context("fork")
    try:
        with ProcessPoolExecutor(max_workers=procs, mp_context=ctx) as pool:
            return list(pool.map(_worker, [(modname, s) for s in specs], chunksize=1))
    except BrokenProcessPool as exc:
        return [("harness", f"a shard worker process died: {exc}")]


class Hang(BaseException):
    """Raised by deadline(): the code under test did not come back (BaseException: not swallowed by 'except Exception')."""


class FramesChanged(BaseException):
    """A frame object handed out by a frame generator was modified while later frames were produced (raised by
    pyj.frames_to_bytes; BaseException so that 'the writer refused' handlers do not take it for a refusal)."""


@contextlib.contextmanager
def deadline(seconds: float):
    """Bound a call into the library by wall-clock time (SIGALRM; main thread of a worker process). Used where the
    property says 'ends or raises': a parser that spins is a violation, not something to wait for."""
    import signal

    def on_alarm(signum, frame):
        raise Hang()

    old = signal.signal(signal.SIGALRM, on_alarm)
    expiry = time.monotonic() + seconds
    if _DEADLINES:
        expiry = min(expiry, _DEADLINES[-1])  # never outlive an enclosing deadline
    _DEADLINES.append(expiry)
    signal.setitimer(signal.ITIMER_REAL, max(expiry - time.monotonic(), 0.001))
    try:
        yield
    finally:
        _DEADLINES.pop()
        if _DEADLINES:  # re-arm the enclosing deadline
            signal.setitimer(signal.ITIMER_REAL, max(_DEADLINES[-1] - time.monotonic(), 0.001))
        else:
            signal.setitimer(signal.ITIMER_REAL, 0)
        signal.signal(signal.SIGALRM, old)


_DEADLINES: list = []
CURRENT_PROP = "C??"
CASE_LIMIT_S = 120.0


# --------------------------------------------------------------------------- main
def write_replay(prop_id: str, v: dict, new: bool = True) -> str:
    sub = os.path.join(REPLAY_DIR, prop_id, "new") if new else os.path.join(REPLAY_DIR, prop_id)
    if new and os.environ.get("VERIF_EVIDENCE_DIR"):
        # sensitivity runs against scratch trees (mutants, seeded changes): their findings do not belong under /verif
        sub = os.path.join(os.environ["VERIF_EVIDENCE_DIR"], "replays", prop_id)
    os.makedirs(sub, exist_ok=True)
    safe = "".join(c if c.isalnum() or c in "-_." else "_" for c in v["signature"])[:80]
    path = os.path.join(sub, f"{safe}-{case_hash(v['case'])}.json")
    with open(path, "w", encoding="utf-8") as fh:
        json.dump({"property": prop_id, **v}, fh, indent=1, sort_keys=True, default=repr)
    return path


def committed_replays(prop_id: str) -> list[str]:
    d = os.path.join(REPLAY_DIR, prop_id)
    if not os.path.isdir(d):
        return []
    return sorted(os.path.join(d, f) for f in os.listdir(d) if f.endswith(".json"))


def guard_module(mod):
    """Wrap the module's body(): harness signals raised underneath it (a reused frame object, a hang) become violations
    of the property being checked, whichever part of the module called body()."""
    orig = getattr(mod, "body", None)
    if orig is None or getattr(orig, "_guarded", False):
        return mod
    pid = getattr(mod, "ID", CURRENT_PROP)

    def body(case, acc=None):
        try:
            return orig(case, acc)
        except FramesChanged as exc:
            return Violation(f"{pid}:frames-changed-after-yield", str(exc), case)

    body._guarded = True
    mod.body = body
    return mod


def run_replay_file(mod, path: str):
    guard_module(mod)
    with open(path, encoding="utf-8") as fh:
        rec = json.load(fh)
    try:
        v = mod.check_case(rec["case"])
    except Violation as exc:
        v = exc
    if v is not None and v.case is None:
        v.case = rec["case"]
    return rec, v


def run_property(prop_id: str, tier: str, seed: int) -> int:
    t0 = time.monotonic()
    modname = f"props.{prop_id.lower()}"
    mod = importlib.import_module(modname)
    known = load_known(prop_id)

    from vlib import selftest

    selftest.run()

    violations: list[dict] = []
    known_seen: Counter = Counter()
    replayed = 0
    # 1. regression tier: committed replays
    for path in committed_replays(prop_id):
        rec, v = run_replay_file(mod, path)
        replayed += 1
        if v is None:
            continue
        if v.signature in known:
            known_seen[v.signature] += 1
        else:
            violations.append({**v.to_json(), "_path": path})

    # 2. search
    specs = mod.plan(tier, seed)
    for s in specs:
        s.setdefault("seed", seed)
        s.setdefault("tier", tier)
        s["known"] = sorted(known)
    results = run_pool(modname, specs, getattr(mod, "PROCS", NSHARDS))
    total = Acc()
    extra_merge = {}
    for status, payload in results:
        if status != "ok":
            print(f"HARNESS-ERROR property={prop_id}\n{payload}", file=sys.stderr)
            return 2
        total.evaluations += payload["evaluations"]
        total.nontrivial.update(payload["nontrivial"])
        total.counters.update(payload["counters"])
        for s in payload["samples"][:1]:
            if len(total.samples) < 6:
                total.samples.append(s)
        total.excluded += payload["excluded"]
        for sig, n in payload["known_hits"].items():
            if sig in known:
                known_seen[sig] += n
        for v in payload["violations"]:
            if v["signature"] in known:
                known_seen[v["signature"]] += 1
            else:
                violations.append(v)
        for k, val in payload["extra"].items():
            if isinstance(val, (int, float)) and not isinstance(val, bool):
                extra_merge[k] = extra_merge.get(k, 0) + val
            elif isinstance(val, bool):
                extra_merge[k] = extra_merge.get(k, True) and val
            else:
                extra_merge.setdefault(k, val)

    # 3. verdict: one VIOLATION line per root-cause bucket
    by_sig: dict[str, dict] = {}
    for v in violations:
        cur = by_sig.get(v["signature"])
        if cur is None or len(json.dumps(v["case"], default=repr)) < len(
            json.dumps(cur["case"], default=repr)
        ):
            by_sig[v["signature"]] = v
    for sig, desc in known.items():
        if known_seen.get(sig):
            print(f"KNOWN-FINDING: property={prop_id} signature={sig} {desc} "
                  f"(reproduced {known_seen[sig]}x this run)")
        else:
            print(f"KNOWN-FINDING: property={prop_id} signature={sig} {desc} "
                  f"(not reproduced this run)")
    for sig, v in sorted(by_sig.items()):
        path = v.pop("_path", None) or write_replay(prop_id, v)
        print(f"VIOLATION property={prop_id} replay={path}")
        print(f"  signature={sig}")
        print(f"  {v['message'][:600]}")

    wall = time.monotonic() - t0
    samples = total.samples or getattr(mod, "STATIC_SAMPLES", [])
    coverage = {
        "evaluations": total.evaluations,
        "distinct_nontrivial": len(total.nontrivial),
        "rule": mod.RULE,
        "samples": samples,
        "classes": dict(sorted(total.counters.items())),
        "replays_rerun": replayed,
        "known_findings_reproduced": dict(known_seen),
        "excluded_by_known_finding": total.excluded,
        "shards": len(specs),
    }
    coverage.update(extra_merge)
    evidence = {
        "property_id": prop_id,
        "tier": tier,
        "seed": seed,
        "level": mod.LEVEL,
        "coverage": coverage,
        "assumptions": list(getattr(mod, "ASSUMPTIONS", [])),
        "wall_s": round(wall, 2),
        "violations": len(by_sig),
    }
    os.makedirs(EVIDENCE_DIR, exist_ok=True)
    with open(os.path.join(EVIDENCE_DIR, f"{prop_id}.json"), "w", encoding="utf-8") as fh:
        json.dump(evidence, fh, indent=1, sort_keys=True, default=repr)
        fh.write("\n")
    print(f"{prop_id} {tier} seed={seed}: evaluations={total.evaluations} "
          f"nontrivial={len(total.nontrivial)} violations={len(by_sig)} wall={wall:.1f}s")
    return 1 if by_sig else 0


def run_replay(path: str) -> int:
    with open(path, encoding="utf-8") as fh:
        rec = json.load(fh)
    prop_id = rec["property"]
    mod = importlib.import_module(f"props.{prop_id.lower()}")
    known = load_known(prop_id)
    _, v = run_replay_file(mod, path)
    if v is None:
        print(f"replay {path}: property {prop_id} holds on this case")
        return 0
    if v.signature in known:
        print(f"KNOWN-FINDING: property={prop_id} signature={v.signature} {known[v.signature]}")
        return 0
    print(f"VIOLATION property={prop_id} replay={path}")
    print(f"  signature={v.signature}")
    print(f"  {v.message[:2000]}")
    return 1


def draw_examples(strategy, n: int, seed: int):
    """n examples of `strategy`, generated by Hypothesis under a fixed seed (generation only)."""
    import hypothesis
    from hypothesis import HealthCheck, Phase, given, settings

    out = []

    def collect(x):
        out.append(x)

    t = given(strategy)(collect)
    t = settings(max_examples=n, database=None, deadline=None, phases=(Phase.generate,),
                 suppress_health_check=list(HealthCheck))(t)
    t = hypothesis.seed(shard_seed(seed, 0, "examples"))(t)
    t()
    return out[:n]
