"""W - independent protobuf wire codec for the Jelly messages.

No google.protobuf import here. Messages are plain dicts / lists in a small
neutral "row model" (see below); this module turns them into bytes and back.

Row model (what R, E, inject and the re-framers work with)
----------------------------------------------------------
frame   := {"rows": [row, ...], "metadata": [(key:str, value:bytes), ...]}
row     := ("options", opts) | ("name", id, value) | ("prefix", id, value)
         | ("datatype", id, value) | ("triple", stmt) | ("quad", stmt)
         | ("graph_start", gterm|None) | ("graph_end",) | ("namespace", name, iri|None)
         | ("empty",)                      # row with no oneof set
opts    := dict with keys of OPTION_FIELDS (missing = default)
stmt    := {"s": term|None, "p": term|None, "o": term|None, "g": term|None}
term    := ("iri", prefix_id, name_id) | ("bnode", label)
         | ("lit", lex, ("lang", tag) | ("dt", id) | None)
         | ("default",) | ("triple", stmt3)          # quoted triple: s/p/o only

Explicit presence: protobuf proto3 scalars with default value are not written
by google.protobuf; this codec follows the same rule on write (so bytes are
comparable) except where `force` markers are used by the hostile-stream
builders (raw helpers below).
"""
from __future__ import annotations

VARINT, I64, LEN, I32 = 0, 1, 2, 5


class WireError(Exception):
    pass


# --------------------------------------------------------------------------- raw
def enc_varint(n: int) -> bytes:
    if n < 0:
        n &= (1 << 64) - 1
    out = bytearray()
    while True:
        b = n & 0x7F
        n >>= 7
        if n:
            out.append(b | 0x80)
        else:
            out.append(b)
            return bytes(out)


def dec_varint(buf: bytes, pos: int) -> tuple[int, int]:
    shift = 0
    result = 0
    start = pos
    while True:
        if pos >= len(buf):
            raise WireError("truncated varint")
        b = buf[pos]
        pos += 1
        result |= (b & 0x7F) << shift
        if not b & 0x80:
            break
        shift += 7
        if pos - start >= 10:
            raise WireError("varint too long")
    return result & ((1 << 64) - 1), pos


def tag(field: int, wt: int) -> bytes:
    return enc_varint((field << 3) | wt)


def f_varint(field: int, n: int) -> bytes:
    return tag(field, VARINT) + enc_varint(n)


def f_len(field: int, payload: bytes) -> bytes:
    return tag(field, LEN) + enc_varint(len(payload)) + payload


def f_str(field: int, s: str) -> bytes:
    return f_len(field, s.encode("utf-8"))


def parse_fields(buf: bytes) -> list[tuple[int, int, object]]:
    """Split a message into (field, wiretype, value) triples. LEN values are bytes."""
    pos = 0
    out = []
    n = len(buf)
    while pos < n:
        key, pos = dec_varint(buf, pos)
        field, wt = key >> 3, key & 7
        if field == 0:
            raise WireError("field 0")
        if wt == VARINT:
            v, pos = dec_varint(buf, pos)
        elif wt == LEN:
            ln, pos = dec_varint(buf, pos)
            if pos + ln > n:
                raise WireError("truncated LEN")
            v = buf[pos : pos + ln]
            pos += ln
        elif wt == I64:
            if pos + 8 > n:
                raise WireError("truncated I64")
            v = buf[pos : pos + 8]
            pos += 8
        elif wt == I32:
            if pos + 4 > n:
                raise WireError("truncated I32")
            v = buf[pos : pos + 4]
            pos += 4
        else:
            raise WireError(f"unsupported wire type {wt}")
        out.append((field, wt, v))
    return out


# ----------------------------------------------------------------------- framing
def split_delimited(data: bytes) -> list[bytes]:
    """Split a delimited stream into raw frame payloads."""
    pos = 0
    out = []
    while pos < len(data):
        ln, pos = dec_varint(data, pos)
        if pos + ln > len(data):
            raise WireError("truncated frame")
        out.append(data[pos : pos + ln])
        pos += ln
    return out


def frame_end_offsets(data: bytes) -> list[int]:
    pos = 0
    out = []
    while pos < len(data):
        ln, pos = dec_varint(data, pos)
        pos += ln
        if pos > len(data):
            raise WireError("truncated frame")
        out.append(pos)
    return out


def join_delimited(frames: list[bytes]) -> bytes:
    return b"".join(enc_varint(len(f)) + f for f in frames)


def split_frame_raw(frame: bytes) -> tuple[list[bytes], list[tuple[str, bytes]]]:
    """Frame payload -> (opaque row blobs, metadata pairs)."""
    rows, meta = [], []
    for field, wt, v in parse_fields(frame):
        if field == 1 and wt == LEN:
            rows.append(v)
        elif field == 15 and wt == LEN:
            k, val = "", b""
            for f2, w2, v2 in parse_fields(v):
                if f2 == 1 and w2 == LEN:
                    k = _utf8(v2)
                elif f2 == 2 and w2 == LEN:
                    val = bytes(v2)
            meta.append((k, val))
        else:
            raise WireError(f"unknown frame field {field}/{wt}")
    return rows, meta


def build_frame_raw(rows: list[bytes], meta=()) -> bytes:
    out = bytearray()
    for r in rows:
        out += f_len(1, r)
    for k, v in meta:
        entry = b""
        if k:
            entry += f_str(1, k)
        if v:
            entry += f_len(2, v)
        out += f_len(15, entry)
    return bytes(out)


# ------------------------------------------------------------------- row <-> bytes
OPTION_FIELDS = {
    "stream_name": (1, "str"),
    "physical_type": (2, "int"),
    "generalized_statements": (3, "bool"),
    "rdf_star": (4, "bool"),
    "max_name_table_size": (9, "int"),
    "max_prefix_table_size": (10, "int"),
    "max_datatype_table_size": (11, "int"),
    "logical_type": (14, "int"),
    "version": (15, "int"),
}
_OPT_BY_NUM = {num: (name, kind) for name, (num, kind) in OPTION_FIELDS.items()}

ROW_FIELD = {
    "options": 1,
    "triple": 2,
    "quad": 3,
    "graph_start": 4,
    "graph_end": 5,
    "namespace": 6,
    "name": 9,
    "prefix": 10,
    "datatype": 11,
}
_ROW_BY_NUM = {v: k for k, v in ROW_FIELD.items()}

# statement slots -> first field number of the oneof in RdfTriple/RdfQuad
_SLOT_BASE = {"s": 1, "p": 5, "o": 9}
# graph oneof in RdfQuad: 13 iri, 14 bnode, 15 default, 16 literal
# graph oneof in RdfGraphStart: 1 iri, 2 bnode, 3 default, 4 literal


def enc_options(o: dict) -> bytes:
    out = bytearray()
    for name, (num, kind) in sorted(OPTION_FIELDS.items(), key=lambda kv: kv[1][0]):
        v = o.get(name)
        if not v:
            continue
        if kind == "str":
            out += f_str(num, v)
        else:
            out += f_varint(num, int(v))
    return bytes(out)


def enc_iri(t) -> bytes:
    _, pid, nid = t
    out = b""
    if pid:
        out += f_varint(1, pid)
    if nid:
        out += f_varint(2, nid)
    return out


def enc_literal(t) -> bytes:
    _, lex, kind = t
    out = b""
    if lex:
        out += f_str(1, lex)
    if kind is not None:
        if kind[0] == "lang":
            out += f_str(2, kind[1])  # oneof member: written even if empty
        else:
            out += f_varint(3, kind[1])  # oneof member: written even if 0
    return out


def enc_spo_term(slot: str, t) -> bytes:
    base = _SLOT_BASE[slot]
    k = t[0]
    if k == "iri":
        return f_len(base, enc_iri(t))
    if k == "bnode":
        return f_str(base + 1, t[1])
    if k == "lit":
        return f_len(base + 2, enc_literal(t))
    if k == "triple":
        return f_len(base + 3, enc_stmt(t[1], quad=False))
    raise WireError(f"bad spo term {t!r}")


def enc_graph_term(t, base: int) -> bytes:
    k = t[0]
    if k == "iri":
        return f_len(base, enc_iri(t))
    if k == "bnode":
        return f_str(base + 1, t[1])
    if k == "default":
        return f_len(base + 2, b"")
    if k == "lit":
        return f_len(base + 3, enc_literal(t))
    raise WireError(f"bad graph term {t!r}")


def enc_stmt(st: dict, quad: bool) -> bytes:
    out = bytearray()
    for slot in ("s", "p", "o"):
        t = st.get(slot)
        if t is not None:
            out += enc_spo_term(slot, t)
    if quad:
        g = st.get("g")
        if g is not None:
            out += enc_graph_term(g, 13)
    return bytes(out)


def enc_entry(id_: int, value: str) -> bytes:
    out = b""
    if id_:
        out += f_varint(1, id_)
    if value:
        out += f_str(2, value)
    return out


def enc_row(row) -> bytes:
    kind = row[0]
    if kind == "empty":
        return b""
    if kind == "raw":
        return row[1]
    num = ROW_FIELD[kind]
    if kind == "options":
        body = enc_options(row[1])
    elif kind in ("name", "prefix", "datatype"):
        body = enc_entry(row[1], row[2])
    elif kind == "triple":
        body = enc_stmt(row[1], quad=False)
    elif kind == "quad":
        body = enc_stmt(row[1], quad=True)
    elif kind == "graph_start":
        body = b"" if row[1] is None else enc_graph_term(row[1], 1)
    elif kind == "graph_end":
        body = b""
    elif kind == "namespace":
        body = b""
        if row[1]:
            body += f_str(1, row[1])
        if row[2] is not None:
            body += f_len(2, enc_iri(row[2]))
    else:
        raise WireError(f"bad row kind {kind}")
    return f_len(num, body)


def enc_frame(frame: dict) -> bytes:
    return build_frame_raw([enc_row(r) for r in frame["rows"]], frame.get("metadata", ()))


def enc_stream(frames: list[dict], delimited: bool = True) -> bytes:
    if delimited:
        return join_delimited([enc_frame(f) for f in frames])
    assert len(frames) == 1
    return enc_frame(frames[0])


# decoding ---------------------------------------------------------------------
def _utf8(b: bytes) -> str:
    try:
        return bytes(b).decode("utf-8")
    except UnicodeDecodeError as e:
        raise WireError("invalid utf-8") from e


def _once(fields, groups=None):
    """Reject messages in which a field - or two members of one oneof group - occur more than once.

    protobuf merges such input (last scalar wins, sub-messages are merged); no producer emits it and no property
    speaks about it, so the reference decoder classifies it as a wire-level anomaly instead of modelling the merge.
    """
    seen = set()
    for field, _wt, _v in fields:
        key = groups(field) if groups else field
        if key in seen:
            raise WireError(f"field/oneof {key} repeated")
        seen.add(key)
    return fields


def dec_options(buf: bytes) -> dict:
    o: dict = {}
    for field, wt, v in _once(parse_fields(buf)):
        if field not in _OPT_BY_NUM:
            o.setdefault("_unknown", []).append(field)
            continue
        name, kind = _OPT_BY_NUM[field]
        if kind == "str":
            if wt != LEN:
                raise WireError("options field wire type")
            o[name] = _utf8(v)
        else:
            if wt != VARINT:
                raise WireError("options field wire type")
            if kind == "bool":
                o[name] = bool(v)
            else:
                o[name] = v & 0xFFFFFFFF if name.startswith("max_") or name == "version" else v
    return o


def dec_iri(buf: bytes):
    pid = nid = 0
    for field, wt, v in _once(parse_fields(buf)):
        if wt != VARINT:
            raise WireError("iri field wire type")
        if field == 1:
            pid = v & 0xFFFFFFFF
        elif field == 2:
            nid = v & 0xFFFFFFFF
        else:
            raise WireError("unknown iri field")
    return ("iri", pid, nid)


def dec_literal(buf: bytes):
    lex = ""
    kind = None
    for field, wt, v in _once(parse_fields(buf), lambda f: "kind" if f in (2, 3) else f):
        if field == 1 and wt == LEN:
            lex = _utf8(v)
        elif field == 2 and wt == LEN:
            kind = ("lang", _utf8(v))
        elif field == 3 and wt == VARINT:
            kind = ("dt", v & 0xFFFFFFFF)
        else:
            raise WireError("unknown literal field")
    return ("lit", lex, kind)


def dec_stmt(buf: bytes, quad: bool) -> dict:
    st = {"s": None, "p": None, "o": None}
    if quad:
        st["g"] = None
    for field, wt, v in _once(parse_fields(buf), lambda f: (f - 1) // 4 if f <= 16 else f):
        if 1 <= field <= 12:
            slot = "spo"[(field - 1) // 4]
            k = (field - 1) % 4
            if k == 1:
                if wt != LEN:
                    raise WireError("bnode wire type")
                st[slot] = ("bnode", _utf8(v))
                continue
            if wt != LEN:
                raise WireError("term wire type")
            if k == 0:
                st[slot] = dec_iri(v)
            elif k == 2:
                st[slot] = dec_literal(v)
            else:
                st[slot] = ("triple", dec_stmt(v, quad=False))
        elif quad and 13 <= field <= 16:
            st["g"] = _dec_graph(field - 12, wt, v)
        else:
            raise WireError(f"unknown statement field {field}")
    return st


def _dec_graph(k: int, wt: int, v):
    if wt != LEN:
        raise WireError("graph term wire type")
    if k == 1:
        return dec_iri(v)
    if k == 2:
        return ("bnode", _utf8(v))
    if k == 3:
        if v:
            raise WireError("default graph message with content")
        return ("default",)
    if k == 4:
        return dec_literal(v)
    raise WireError("unknown graph field")


def dec_entry(buf: bytes):
    id_, value = 0, ""
    for field, wt, v in _once(parse_fields(buf)):
        if field == 1 and wt == VARINT:
            id_ = v & 0xFFFFFFFF
        elif field == 2 and wt == LEN:
            value = _utf8(v)
        else:
            raise WireError("unknown entry field")
    return id_, value


def dec_row(buf: bytes):
    fields = parse_fields(buf)
    if not fields:
        return ("empty",)
    # protobuf semantics: last oneof member on the wire wins
    field, wt, v = fields[-1]
    if field not in _ROW_BY_NUM or wt != LEN:
        raise WireError(f"unknown row field {field}")
    if len(fields) > 1:
        raise WireError("row with several fields")
    kind = _ROW_BY_NUM[field]
    if kind == "options":
        return ("options", dec_options(v))
    if kind in ("name", "prefix", "datatype"):
        id_, value = dec_entry(v)
        return (kind, id_, value)
    if kind == "triple":
        return ("triple", dec_stmt(v, quad=False))
    if kind == "quad":
        return ("quad", dec_stmt(v, quad=True))
    if kind == "graph_start":
        g = None
        for f2, w2, v2 in _once(parse_fields(v), lambda f: "g"):
            if not 1 <= f2 <= 4:
                raise WireError("unknown graph_start field")
            g = _dec_graph(f2, w2, v2)
        return ("graph_start", g)
    if kind == "graph_end":
        if v:
            raise WireError("graph_end with content")
        return ("graph_end",)
    if kind == "namespace":
        name, iri = "", None
        for f2, w2, v2 in _once(parse_fields(v)):
            if f2 == 1 and w2 == LEN:
                name = _utf8(v2)
            elif f2 == 2 and w2 == LEN:
                iri = dec_iri(v2)
            else:
                raise WireError("unknown namespace field")
        return ("namespace", name, iri)
    raise WireError("unreachable")


def dec_frame(buf: bytes) -> dict:
    rows, meta = split_frame_raw(buf)
    return {"rows": [dec_row(r) for r in rows], "metadata": meta}


def dec_stream(data: bytes, delimited: bool = True) -> list[dict]:
    if delimited:
        return [dec_frame(f) for f in split_delimited(data)]
    return [dec_frame(data)]
