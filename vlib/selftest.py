"""Differential self-test of the wire codec W against google.protobuf (harness guard, exit 2)."""
from __future__ import annotations

import random

from vlib import env, wire
from vlib.env import HarnessError

_done = False


def _rand_term(rnd, depth=0, graph=False):
    k = rnd.randrange(5 if not graph else 4)
    if k == 0:
        return ("iri", rnd.randrange(0, 5), rnd.randrange(0, 300))
    if k == 1:
        return ("bnode", rnd.choice(["", "b", "ü"]))
    if k == 2:
        kind = rnd.choice([None, ("lang", "en"), ("dt", 3), ("dt", 0), ("lang", "")])
        return ("lit", rnd.choice(["", "x", "żó"]), kind)
    if k == 3 and graph:
        return ("default",)
    if depth < 2 and not graph:
        return ("triple", {s: _rand_term(rnd, depth + 1) for s in "spo"})
    return ("bnode", "z")


def _rand_rows(rnd):
    rows = [("options", {"stream_name": rnd.choice(["", "n"]), "physical_type": rnd.randrange(4),
                         "generalized_statements": rnd.random() < .5, "rdf_star": rnd.random() < .5,
                         "max_name_table_size": rnd.choice([0, 8, 4000]),
                         "max_prefix_table_size": rnd.choice([0, 1, 150]),
                         "max_datatype_table_size": rnd.choice([0, 32]),
                         "logical_type": rnd.choice([0, 1, 2, 3, 4, 13, 14, 114]),
                         "version": rnd.randrange(3)})]
    for _ in range(rnd.randrange(8)):
        k = rnd.randrange(8)
        if k == 0:
            rows.append((rnd.choice(["name", "prefix", "datatype"]), rnd.randrange(3), rnd.choice(["", "v"])))
        elif k == 1:
            rows.append(("triple", {s: (_rand_term(rnd) if rnd.random() < .7 else None) for s in "spo"}))
        elif k == 2:
            st = {s: (_rand_term(rnd) if rnd.random() < .7 else None) for s in "spo"}
            st["g"] = _rand_term(rnd, graph=True) if rnd.random() < .7 else None
            rows.append(("quad", st))
        elif k == 3:
            rows.append(("graph_start", _rand_term(rnd, graph=True) if rnd.random() < .8 else None))
        elif k == 4:
            rows.append(("graph_end",))
        elif k == 5:
            rows.append(("namespace", rnd.choice(["", "ex"]), ("iri", 1, 2) if rnd.random() < .8 else None))
        elif k == 6:
            rows.append(("empty",))
    return rows


def pb_from_rows(frames):
    """Build google.protobuf frames from the row model (used only by the self-test and by
    harnesses that hand frames to pyjelly's writers)."""
    from pyjelly import jelly

    def fill_iri(msg, t):
        msg.prefix_id = t[1]
        msg.name_id = t[2]
        msg.SetInParent()

    def fill_lit(msg, t):
        msg.lex = t[1]
        if t[2] is not None:
            if t[2][0] == "lang":
                msg.langtag = t[2][1]
            else:
                msg.datatype = t[2][1]
        msg.SetInParent()

    def fill_stmt(msg, st, quad):
        for slot in "spo":
            t = st.get(slot)
            if t is None:
                continue
            if t[0] == "iri":
                fill_iri(getattr(msg, slot + "_iri"), t)
            elif t[0] == "bnode":
                setattr(msg, slot + "_bnode", t[1])
            elif t[0] == "lit":
                fill_lit(getattr(msg, slot + "_literal"), t)
            else:
                sub = getattr(msg, slot + "_triple_term")
                sub.SetInParent()
                fill_stmt(sub, t[1], False)
        if quad and st.get("g") is not None:
            fill_g(msg, st["g"])
        msg.SetInParent()

    def fill_g(msg, t):
        if t[0] == "iri":
            fill_iri(msg.g_iri, t)
        elif t[0] == "bnode":
            msg.g_bnode = t[1]
        elif t[0] == "default":
            msg.g_default_graph.SetInParent()
        else:
            fill_lit(msg.g_literal, t)

    out = []
    for fr in frames:
        f = jelly.RdfStreamFrame()
        for row in fr["rows"]:
            r = f.rows.add()
            k = row[0]
            if k == "options":
                for name, v in row[1].items():
                    setattr(r.options, name, v)
                r.options.SetInParent()
            elif k in ("name", "prefix", "datatype"):
                e = getattr(r, k)
                e.id = row[1]
                e.value = row[2]
                e.SetInParent()
            elif k == "triple":
                fill_stmt(r.triple, row[1], False)
            elif k == "quad":
                fill_stmt(r.quad, row[1], True)
            elif k == "graph_start":
                r.graph_start.SetInParent()
                if row[1] is not None:
                    fill_g(r.graph_start, row[1])
            elif k == "graph_end":
                r.graph_end.SetInParent()
            elif k == "namespace":
                r.namespace.name = row[1]
                r.namespace.SetInParent()
                if row[2] is not None:
                    fill_iri(r.namespace.value, row[2])
        for key, val in fr.get("metadata", ()):
            f.metadata[key] = val
        out.append(f)
    return out


def run(n: int = 150) -> None:
    global _done
    if _done:
        return
    from pyjelly import jelly

    rnd = random.Random(12345)  # fixed: a self-test of the codec, not part of any property
    for i in range(n):
        frame = {"rows": _rand_rows(rnd), "metadata": [("k", b"v")] if i % 3 == 0 else []}
        mine = wire.enc_frame(frame)
        theirs = pb_from_rows([frame])[0].SerializeToString(deterministic=True)
        if mine != theirs:
            raise HarnessError(f"wire self-test: encoding differs for {frame!r}\n{mine.hex()}\n{theirs.hex()}")
        back = wire.dec_frame(theirs)
        if wire.enc_frame(back) != theirs:
            raise HarnessError(f"wire self-test: decode/encode not identity for {frame!r}")
        pb = jelly.RdfStreamFrame()
        pb.ParseFromString(mine)
        if pb.SerializeToString(deterministic=True) != mine:
            raise HarnessError("wire self-test: protobuf re-serialisation differs")
    for v in [0, 1, 127, 128, 300, 16383, 16384, 2**21, 2**32 - 1, 2**63]:
        b = wire.enc_varint(v)
        if wire.dec_varint(b, 0) != (v, len(b)):
            raise HarnessError("varint self-test")
    _done = True
