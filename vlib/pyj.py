"""Thin adapters from neutral cases to pyjelly's public entry points (both integrations)."""
from __future__ import annotations

import io

from vlib import env  # noqa: F401
from vlib import terms as T

PHYS = {"TRIPLES": 1, "QUADS": 2, "GRAPHS": 3}
LOGICALS = [0, 1, 2, 3, 4, 13, 14, 114]


def _mods():
    from pyjelly import jelly, options
    from pyjelly.serialize import flows, ioutils, streams

    return jelly, options, flows, ioutils, streams


def stream_class(phys: str):
    from pyjelly.serialize import streams

    return {"TRIPLES": streams.TripleStream, "QUADS": streams.QuadStream,
            "GRAPHS": streams.GraphStream}[phys]


def make_flow(spec, logical, frame_size):
    """spec: None (inferred) or a flow class name, optionally with ':lt' to pass logical type."""
    from pyjelly.serialize import flows

    if spec is None:
        return None
    name, _, withlt = spec.partition(":")
    cls = getattr(flows, name)
    kwargs = {}
    if withlt:
        kwargs["logical_type"] = logical
    if issubclass(cls, flows.BoundedFrameFlow):
        kwargs["frame_size"] = frame_size
    return cls(**kwargs)


def make_options(cfg):
    from pyjelly.options import LookupPreset, StreamParameters
    from pyjelly.serialize.streams import SerializerOptions

    p = cfg.get("params", {})
    params = StreamParameters(
        generalized_statements=p.get("generalized", True),
        rdf_star=p.get("rdf_star", True),
        delimited=cfg.get("delimited", True),
        namespace_declarations=p.get("namespace_declarations", False),
        stream_name=p.get("stream_name", ""),
        **({"version": p["version"]} if p.get("version") is not None else {}),
    )
    n, pr, d = cfg.get("preset", [4000, 150, 32])
    kwargs = dict(
        logical_type=cfg.get("logical", 0),
        params=params,
        lookup_preset=LookupPreset(max_names=n, max_prefixes=pr, max_datatypes=d),
    )
    if cfg.get("frame_size") is not None:
        kwargs["frame_size"] = cfg["frame_size"]
    flow = make_flow(cfg.get("flow"), cfg.get("logical", 0), cfg.get("frame_size"))
    if flow is not None:
        kwargs["flow"] = flow
    opts = SerializerOptions(**kwargs)
    if flow is None and cfg.get("options_history") == "abandoned":
        # the caller's options object has a past: a stream was started from it (its options row is sitting in that stream's
        # flow) and then abandoned, e.g. after an error further up - options are configuration, this must leave no trace
        from pyjelly.integrations.generic.serialize import GenericSinkTermEncoder

        try:
            old = stream_class(cfg.get("phys", "TRIPLES"))(encoder=GenericSinkTermEncoder(lookup_preset=opts.lookup_preset),
                                                           options=opts)
            old.enroll()
            from pyjelly.integrations.generic.generic_sink import BlankNode, DefaultGraph, Quad, Triple

            b = BlankNode("abandoned")
            if cfg.get("phys", "TRIPLES") == "QUADS":
                old.quad(Quad(b, b, b, DefaultGraph))
            else:
                old.triple(Triple(b, b, b))
        except Exception:  # noqa: BLE001  (a configuration the stream class refuses: no past then)
            pass
    return opts


def make_stream(cfg, integration: str):
    opts = make_options(cfg)
    cls = stream_class(cfg["phys"])
    if integration == "generic":
        from pyjelly.integrations.generic.serialize import GenericSinkTermEncoder

        return cls(encoder=GenericSinkTermEncoder(lookup_preset=opts.lookup_preset), options=opts)
    return cls.for_rdflib(opts)


from vlib.harness import FramesChanged as FramesChangedAfterYield  # noqa: E402


def frames_to_bytes(frames, delimited: bool) -> bytes:
    """Write every frame as it is produced - and keep the frame objects: a consumer may just as well collect them
    first (list(frames)) and write afterwards, so what was yielded must still say the same when the generator is done."""
    from pyjelly.serialize.ioutils import write_delimited, write_single

    out = io.BytesIO()
    w = write_delimited if delimited else write_single
    kept = []
    for f in frames:
        w(f, out)
        kept.append(f)
    later = io.BytesIO()
    for f in kept:
        w(f, later)
    if later.getvalue() != out.getvalue():
        k = next((i for i, (a, b) in enumerate(zip(out.getvalue(), later.getvalue())) if a != b), 0)
        msg = (f"frames collected and written after the generator finished differ from the same frames written as they "
               f"were produced (first difference at byte {k}): a frame object was reused")
        raise FramesChangedAfterYield(msg)
    return out.getvalue()


def conv_stmts(statements, integration):
    f = T.to_generic_stmt if integration == "generic" else T.to_rdflib_stmt
    return [f(s) for s in statements]


def generic_sink(statements, bindings=(), identifier=None):
    from pyjelly.integrations.generic.generic_sink import IRI, GenericStatementSink

    sink = GenericStatementSink() if identifier is None else GenericStatementSink(identifier=T.to_generic(identifier))
    for pfx, ns in bindings:
        sink.bind(pfx, IRI(ns))
    for s in statements:
        sink.add(T.to_generic_stmt(s))
    return sink


def write_stream_frames(statements, cfg, integration="generic", as_sink=False, bindings=()):
    """stream_frames(stream, data) + the writer matching params.delimited (as the rdflib serializer does)."""
    stream = make_stream(cfg, integration)
    if integration == "generic":
        from pyjelly.integrations.generic.serialize import stream_frames

        data = generic_sink(statements, bindings) if as_sink else (s for s in conv_stmts(statements, "generic"))
    else:
        from pyjelly.integrations.rdflib.serialize import stream_frames

        data = (s for s in conv_stmts(statements, "rdflib"))
    data_bytes = frames_to_bytes(stream_frames(stream, data), cfg.get("delimited", True))
    return data_bytes, stream


# ------------------------------------------------------------------------- parse
def _parse_mod(integration):
    if integration == "generic":
        from pyjelly.integrations.generic import parse as m
    else:
        from pyjelly.integrations.rdflib import parse as m
    return m


def _from_stmt(integration):
    return T.from_generic_stmt if integration == "generic" else T.from_rdflib_stmt


def parse_flat(data, integration="generic", strict=False, source=None):
    """-> list of neutral events (statements and ["prefix", p, iri])."""
    m = _parse_mod(integration)
    conv = _from_stmt(integration)
    inp = source if source is not None else io.BytesIO(data)
    return [conv(x) for x in m.parse_jelly_flat(inp, logical_type_strict=strict)]


def parse_flat_partial(data, integration="generic", source=None):
    """Collect items until StopIteration or an exception -> (items, exception|None)."""
    m = _parse_mod(integration)
    conv = _from_stmt(integration)
    inp = source if source is not None else io.BytesIO(data)
    items = []
    try:
        for x in m.parse_jelly_flat(inp):
            items.append(conv(x))
    except Exception as exc:  # noqa: BLE001
        return items, exc
    return items, None


def sink_events(sink, integration):
    """Statements held by a parsed container, as neutral statements (list; order as iterated)."""
    if integration == "generic":
        return [T.from_generic_stmt(s) for s in sink]
    import rdflib

    if isinstance(sink, rdflib.Dataset):
        out = []
        for s, p, o, g in sink.quads():
            out.append([T.from_rdflib(s), T.from_rdflib(p), T.from_rdflib(o), T.from_rdflib(g, graph_pos=True)])
        return out
    return [[T.from_rdflib(s), T.from_rdflib(p), T.from_rdflib(o)] for s, p, o in sink]


def sink_namespaces(sink, integration):
    if integration == "generic":
        return [[p, T.from_generic(i)] for p, i in sink.namespaces]
    return [[p, T.from_rdflib(i)] for p, i in sink.namespaces()]


def parse_grouped(data, integration="generic", strict=False, source=None, frame_metadata=None):
    m = _parse_mod(integration)
    inp = source if source is not None else io.BytesIO(data)
    kwargs = {}
    if frame_metadata is not None:
        kwargs["frame_metadata"] = frame_metadata
    out = []
    for sink in m.parse_jelly_grouped(inp, logical_type_strict=strict, **kwargs):
        out.append(sink_events(sink, integration))
    return out


def parse_to_graph(data, integration="generic", source=None):
    m = _parse_mod(integration)
    inp = source if source is not None else io.BytesIO(data)
    return m.parse_jelly_to_graph(inp)


def only_statements(events):
    return [e for e in events if e and e[0] != "prefix"]


def only_prefixes(events):
    return [e for e in events if e and e[0] == "prefix"]
