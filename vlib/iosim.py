"""Byte sources for C09/C10/C11: dribbling and stalling non-seekable raw streams, real pipes / sockets, gzip."""
from __future__ import annotations

import gzip
import io
import os
import socket
import tempfile
import threading


class Stall(Exception):
    """The consumer asked for a byte that has not been delivered (a blocking source would block forever)."""


class DribbleRaw(io.RawIOBase):
    """Non-seekable raw source returning short reads according to a schedule (cycled), each >= 1 byte."""

    def __init__(self, data: bytes, schedule, limit: int | None = None, stall: bool = False):
        super().__init__()
        self._data = data
        self._pos = 0
        self._sched = [max(1, int(x)) for x in schedule] or [1 << 30]
        self._i = 0
        self._limit = len(data) if limit is None else limit
        self._stall = stall
        self.reads = 0
        self.max_pos_requested = 0

    def readable(self):
        return True

    def seekable(self):
        return False

    def writable(self):
        return False

    def readinto(self, b):
        self.reads += 1
        avail = self._limit - self._pos
        if avail <= 0:
            if self._stall:
                raise Stall(f"read at offset {self._pos} but only {self._limit} bytes were delivered")
            return 0
        n = min(len(b), avail, self._sched[self._i % len(self._sched)])
        self._i += 1
        b[:n] = self._data[self._pos:self._pos + n]
        self._pos += n
        return n


def temp_file(data: bytes):
    os.makedirs(os.path.join(os.path.dirname(os.path.dirname(os.path.abspath(__file__))), ".work"), exist_ok=True)
    fd, path = tempfile.mkstemp(prefix="c09_", dir=os.path.join(os.path.dirname(os.path.dirname(os.path.abspath(__file__))), ".work"))
    with os.fdopen(fd, "wb") as fh:
        fh.write(data)
    return path


def open_source(kind: str, data: bytes, schedule=(), cleanup=None):
    """Return a binary file object of the given kind holding `data`; cleanup collects callables."""
    cleanup = cleanup if cleanup is not None else []
    if kind == "bytesio":
        return io.BytesIO(data)
    if kind == "bytesio_offset":
        junk = b"\x0a\x0a\x00JUNK-BEFORE-THE-STREAM\x0a"
        b = io.BytesIO(junk + data)
        b.seek(len(junk))
        return b
    if kind == "file":
        path = temp_file(data)
        fh = open(path, "rb")
        cleanup.append(fh.close)
        cleanup.append(lambda: os.unlink(path))
        return fh
    if kind == "file_unbuffered":
        path = temp_file(data)
        fh = open(path, "rb", buffering=0)
        cleanup.append(fh.close)
        cleanup.append(lambda: os.unlink(path))
        return fh
    if kind in ("gzip_file", "bz2_file", "lzma_file"):
        # a compressed file on disk opened through the stdlib wrapper: fileno()/fstat describe the compressed file,
        # tell()/read() the decompressed data
        import bz2
        import lzma

        mod = {"gzip_file": gzip, "bz2_file": bz2, "lzma_file": lzma}[kind]
        path = temp_file(mod.compress(data))
        fh = mod.open(path, "rb")
        cleanup.append(fh.close)
        cleanup.append(lambda: os.unlink(path))
        return fh
    if kind == "gzip_bytesio":
        return gzip.open(io.BytesIO(gzip.compress(data)), "rb")
    if kind == "gzip_buffered_dribble":
        return gzip.open(io.BufferedReader(DribbleRaw(gzip.compress(data), schedule)), "rb")
    if kind == "dribble_raw":
        return DribbleRaw(data, schedule)
    if kind == "buffered_dribble":
        return io.BufferedReader(DribbleRaw(data, schedule))
    if kind in ("pipe", "socket"):
        chunks = []
        pos = 0
        i = 0
        sched = [max(1, int(x)) for x in schedule] or [len(data) or 1]
        while pos < len(data):
            n = sched[i % len(sched)]
            chunks.append(data[pos:pos + n])
            pos += n
            i += 1
        if kind == "pipe":
            r, w = os.pipe()
            rf = os.fdopen(r, "rb", buffering=0)

            def feed():
                try:
                    for c in chunks:
                        os.write(w, c)
                finally:
                    os.close(w)
        else:
            a, b = socket.socketpair()
            rf = a.makefile("rb", buffering=0)
            cleanup.append(a.close)

            def feed():
                try:
                    for c in chunks:
                        b.sendall(c)
                finally:
                    b.close()
        t = threading.Thread(target=feed, daemon=True)
        t.start()
        cleanup.append(lambda: t.join(5))
        cleanup.append(rf.close)
        return rf
    raise ValueError(kind)
