"""G - Hypothesis strategies producing JSON-able neutral cases (see terms.py)."""
from __future__ import annotations

from hypothesis import strategies as st

from vlib.terms import XSD_STRING, datatypes_of, iris_of

XSD = "http://www.w3.org/2001/XMLSchema#"
PREFIXES = [
    "http://ex.org/", "http://ex.org/a#", "http://ex.org/a/b/", "urn:x:", "",
    "http://ü.example/ł/", "mailto:", "http://ex.org/#", "#", "/", "http://a/b#c/",
    "http://ex.org/ns1/", "http://ex.org/ns2/", "http://ex.org/ns3/", "https://w3id.org/x#",
]
LOCALS = ["a", "b", "c", "x1", "", "ü", "a b", "\x00", "n" * 40, "p", "q", "Ω≈ç"]
DATATYPES = [
    XSD + "integer", XSD + "string", XSD + "date", "http://ex.org/dt#custom", "urn:dt",
    XSD + "double", XSD + "boolean", "http://ex.org/dt/other", "dtnosep", XSD + "anyURI",
]
NONCANONICAL = [("01", "integer"), ("+42", "integer"), ("-0", "integer"), ("1.50", "decimal"), ("010.0", "decimal"), ("1.0E0", "double"),
                ("1e3", "double"), ("1", "boolean"), ("0", "boolean"), ("2020-01-01T00:00:00Z", "dateTime"), ("1.0", "float"),
                ("007", "nonNegativeInteger"), (" 5 ", "int"), ("+1", "long")]
LANGS = ["en", "en-GB", "de", "pl", "x-private", "EN-us"]
LEXES = ["", "a", "hello world", "42", "2020-01-01", "zażółć", "\x00", "true", "1.5", "x" * 60, "\n\t\"'\\", "0", "false", "0.0", "01", "1E+3"]
LABELS = ["b0", "b1", "", "x", "ü", "N" * 30, "b 2"]

iri_pool = st.builds(lambda p, l: ["iri", p + l], st.sampled_from(PREFIXES), st.sampled_from(LOCALS))
iri_wild = st.builds(lambda s: ["iri", s], st.text(max_size=24))
iri = st.one_of(iri_pool, iri_pool, iri_pool, iri_wild)
bnode = st.one_of(
    st.builds(lambda s: ["bnode", s], st.sampled_from(LABELS)),
    st.builds(lambda s: ["bnode", s], st.text(max_size=8)),
)
lex = st.one_of(st.sampled_from(LEXES), st.text(max_size=12))


def literal(rdflib_safe: bool = False):
    plain = st.builds(lambda x: ["lit", x, None, None], lex)
    lang = st.builds(lambda x, l: ["lit", x, l, None], lex,
                     st.sampled_from(LANGS) if rdflib_safe else
                     st.one_of(st.sampled_from(LANGS), st.text(min_size=1, max_size=6)))
    dts = st.sampled_from(DATATYPES) if rdflib_safe else st.one_of(
        st.sampled_from(DATATYPES), st.text(min_size=1, max_size=16))
    typed = st.builds(lambda x, d: ["lit", x, None, d], lex, dts)
    # valid but non-canonical lexical forms of the XSD types every RDF library knows how to "tidy up"
    noncanon = st.sampled_from(NONCANONICAL).map(lambda p: ["lit", p[0], None, XSD + p[1]])
    return st.one_of(plain, lang, typed, typed, noncanon)


def quoted(depth: int):
    """Quoted triple with generalized content, nesting <= depth."""
    inner = st.one_of(iri, iri, bnode, literal())
    if depth > 1:
        inner = st.one_of(inner, inner, st.deferred(lambda: quoted(depth - 1)))
    return st.builds(lambda s, p, o: ["triple", s, p, o], inner, inner, inner)


DEFAULT = st.just(["default"])


@st.composite
def statement_seq(draw, *, arity: int, mode: str, max_len: int = 12, min_len: int = 0,
                  pool_max: int = 14, quoted_depth: int = 3):
    """Sequence of statements over a small drawn term pool (hits, misses and evictions interleave).

    mode: "rdf11"  s in IRI|BNode, p IRI, o IRI|BNode|Literal, g IRI|BNode|default
          "rdflib" as rdf11 with rdflib-constructible literals
          "gen"    generalized + RDF-star: any term anywhere (g: IRI|BNode|Literal|default)
    """
    rdflib_safe = mode == "rdflib"
    lit = literal(rdflib_safe)
    n_iris = draw(st.sampled_from([1, 2, 3, 4, 6, 9, 12, 14]))
    n_iris = min(n_iris, max(pool_max, 1))
    profile = draw(st.sampled_from(["mixed", "mixed", "mixed", "prefix_churn", "name_churn", "datatype_churn"])) if pool_max >= 8 else "mixed"
    if profile == "prefix_churn":
        # many namespaces x very few local names: prefix slots are recycled while the names stay resident
        pfx = draw(st.lists(st.sampled_from(PREFIXES), min_size=4, max_size=9, unique=True))
        loc = draw(st.lists(st.sampled_from(LOCALS), min_size=1, max_size=2, unique=True))
        iris = [["iri", p + l] for p in pfx for l in loc]
    elif profile == "name_churn":
        # few namespaces x many local names: name slots are recycled while the prefixes stay resident
        pfx = draw(st.lists(st.sampled_from(PREFIXES), min_size=1, max_size=2, unique=True))
        iris = [["iri", p + l] for p in pfx for l in LOCALS]
    else:
        iris = draw(st.lists(iri, min_size=n_iris, max_size=n_iris))
    bnodes = draw(st.lists(bnode, min_size=0, max_size=3))
    lits = draw(st.lists(lit, min_size=0, max_size=4))
    if profile == "datatype_churn":
        # many datatypes x few lexical forms: datatype slots are recycled (with a table smaller than the number of types)
        dts_ = draw(st.lists(st.sampled_from([d for d in DATATYPES if d != XSD + "string"] + [XSD + n for n in ("decimal", "float", "long", "int", "byte", "time")]),
                             min_size=5, max_size=9, unique=True))
        lits = [["lit", draw(st.sampled_from(["1", "x"])), None, d] for d in dts_]
    quoteds = draw(st.lists(quoted(quoted_depth), min_size=0, max_size=3)) if mode == "gen" else []
    gdefault = [["default"]]
    if mode == "gen":
        everything = iris + bnodes + lits + quoteds
        s_pool = p_pool = o_pool = everything
        g_pool = iris + bnodes + lits + gdefault
    else:
        s_pool = iris + bnodes
        p_pool = iris
        o_pool = iris + bnodes + lits if profile != "datatype_churn" else iris[:2] + lits + lits
        g_pool = iris[:3] + bnodes + gdefault + gdefault
        if rdflib_safe:  # rdflib cannot hold a graph named by the empty IRI (falsy identifier -> fresh BNode)
            # ... and an IRI spelled like rdflib's own name for the default graph IS the default graph there (Hypothesis
            # feeds string constants found in imported modules into st.text(), so this spelling does get generated)
            g_pool = [g for g in g_pool if g not in (["iri", ""], ["bnode", ""], ["iri", "urn:x-rdflib:default"])]
    pools = [s_pool, p_pool, o_pool, g_pool][:arity]
    n = max(draw(st.integers(min_len, max_len)), draw(st.integers(min_len, max_len)))
    out = []
    for i in range(n):
        rep = draw(st.integers(0, 15)) if i else 0  # bit j set: repeat previous term in slot j
        dup = i and draw(st.integers(0, 9)) == 0
        if dup:
            out.append(list(out[-1]))
            continue
        stt = []
        for j, pool in enumerate(pools):
            if i and (rep >> j) & 1 and draw(st.booleans()):
                prev = out[-1][j]
                if draw(st.integers(0, 3)) == 0:
                    # a near miss instead of a repeat: a term that differs from the previous one in this slot in ONE
                    # respect (tag case, datatype, trailing character, term kind with the same string) - whatever decides
                    # "same term as before" must not take it for a repeat
                    kinds = {t[0] for t in pool}
                    cands = [t for t in near_misses(prev, rdflib_safe) if t[0] in kinds
                             and not (rdflib_safe and j == 3 and t in (["iri", ""], ["bnode", ""]))]
                    if cands:
                        prev = cands[draw(st.integers(0, len(cands) - 1))]
                stt.append(prev)
            else:
                stt.append(draw(st.sampled_from(pool)))
        out.append(stt)
    return out


def near_misses(t, rdflib_safe=False):
    """Terms that differ from t in one respect only."""
    k = t[0]
    out = []
    if k == "lit":
        _, lexv, lang, dt = t
        if lang:
            if not rdflib_safe:  # rdflib compares language tags case-insensitively: there these are the same term
                for v in (lang.lower(), lang.upper(), lang.swapcase()):
                    if v != lang:
                        out.append(["lit", lexv, v, None])
            out.append(["lit", lexv, None, None])
        elif dt:
            out.append(["lit", lexv, None, None])
            out.append(["lit", lexv, None, DATATYPES[(DATATYPES.index(dt) + 1) % len(DATATYPES)] if dt in DATATYPES else DATATYPES[0]])
        else:
            out.append(["lit", lexv, None, XSD + "string"])
            out.append(["lit", lexv, "en", None])
            out.append(["lit", lexv, None, DATATYPES[0]])
        out.append(["lit", lexv + " ", lang, dt])
        out.append(["lit", lexv.swapcase(), lang, dt])
        out.append(["iri", lexv])
        out.append(["bnode", lexv])
    elif k == "iri":
        v = t[1]
        out += [["iri", v + "/"], ["iri", v + "#"], ["iri", v[:-1]], ["iri", v.swapcase()], ["bnode", v], ["lit", v, None, None]]
    elif k == "bnode":
        v = t[1]
        out += [["bnode", v + "0"], ["bnode", v.swapcase()], ["iri", v], ["lit", v, None, None]]
    elif k == "triple":
        for pos in (1, 2, 3):
            for alt in near_misses(t[pos], rdflib_safe)[:2]:
                if alt[0] != "default":
                    q = list(t)
                    q[pos] = alt
                    out.append(q)
    elif k == "default":
        out += [["iri", "urn:x-rdflib:default-"], ["bnode", "default"]]
    if rdflib_safe:  # rdflib's name for the default graph is an IRI: as a term it IS the default graph
        out = [x for x in out if x[:2] != ["iri", "urn:x-rdflib:default"]]
    return [x for x in out if x != t]


def _all_datatypes(t, out):
    if t[0] == "lit" and t[3]:
        out.append(t[3])
    elif t[0] == "triple":
        for x in t[1:]:
            _all_datatypes(x, out)
    return out


def needs(statements, count_string=False):
    """(max IRI occurrences, max [non-string] datatype occurrences) in one statement."""
    ki = kd = 0
    for stt in statements:
        i = sum(len(iris_of(t)) for t in stt)
        if count_string:
            d = sum(len(_all_datatypes(t, [])) for t in stt)
        else:
            d = sum(len(datatypes_of(t)) for t in stt)
        ki, kd = max(ki, i), max(kd, d)
    return ki, kd


@st.composite
def preset_for(draw, statements, extra_iris: int = 0, allow_zero_prefix: bool = True, count_string: bool = False):
    """LookupPreset in the C01 domain: every enabled table can hold one statement's entries."""
    ki, kd = needs(statements, count_string)
    ki = max(ki, extra_iris, 1)
    all_iris = {i for stt in statements for t in stt for i in iris_of(t)}
    n_prefixes = len({i[:max(i.rfind("#"), i.rfind("/")) + 1] for i in all_iris})
    n_names = len({i[max(i.rfind("#"), i.rfind("/")) + 1:] for i in all_iris})
    nchoices = sorted({max(8, ki), max(8, ki) + 1, 8, 9, 16, 4000, 4096} - set(range(max(8, ki))))
    if n_names > max(8, ki):  # the data can recycle name slots: make tight name tables likely
        nchoices = [max(8, ki)] * 3 + [max(8, ki) + 1] * 2 + nchoices
    names = draw(st.sampled_from(nchoices))
    pchoices = sorted({ki, ki + 1, ki + 2, 8, 150, 4096} - set(range(ki)))
    if allow_zero_prefix:
        pchoices = [0] + pchoices
    if n_prefixes > ki:  # the data can recycle prefix slots: make tight prefix tables likely
        pchoices = [ki] * 4 + [ki + 1] * 3 + pchoices
    prefixes = draw(st.sampled_from(pchoices))
    if kd == 0:
        dchoices = [0, 1, 2, 32, 4096]
    else:
        dchoices = sorted({kd, kd + 1, 32, 4096} - set(range(kd)))
    n_dt = len({d for stt in statements for t in stt for d in (_all_datatypes(t, []) if count_string else datatypes_of(t))})
    if n_dt > max(kd, 1) + 1:
        # the data can recycle datatype slots: make small tables (3, 4: the smallest in which "the slot after the last
        # one" and "the last slot" differ) likely
        dchoices = dchoices + [s_ for s_ in (3, 3, 4, n_dt - 1) if s_ >= max(kd, 1)]
    datatypes = draw(st.sampled_from(dchoices))
    return [names, prefixes, datatypes]


frame_sizes = st.sampled_from([1, 1, 2, 3, 4, 5, 7, 11, 250])
stream_names = st.one_of(st.just(""), st.text(max_size=12), st.sampled_from(["s", "name", "ü" * 3]))
