"""Catalogue of single spec violations injected into valid streams (row model of wire.py)."""
from __future__ import annotations

import copy

from vlib import jellyref

BIG = 2 ** 32 - 1


def _positions(frames):
    for fi, f in enumerate(frames):
        for ri, r in enumerate(f["rows"]):
            yield fi, ri, r


def _with_row(frames, fi, ri, new_row):
    out = copy.deepcopy(frames)
    out[fi]["rows"][ri] = new_row
    return out


def _insert_row(frames, fi, ri, new_row):
    out = copy.deepcopy(frames)
    out[fi]["rows"].insert(ri, new_row)
    return out


def _state_before(frames, fi, ri, mode="strict"):
    """Reference decoder state just before row (fi, ri)."""
    dec = jellyref.RefDecoder(mode)
    try:
        for k, f in enumerate(frames):
            if k < fi:
                dec.feed_frame(f)
            elif k == fi:
                dec.feed_frame({"rows": f["rows"][:ri], "metadata": []})
                break
    except jellyref.SpecViolation:
        return None
    return dec


def _iri_paths(stmt, slots, prefix=()):
    """Paths to IRI terms inside a statement dict, depth first in field order."""
    for s in slots:
        t = stmt.get(s)
        if t is None:
            continue
        if t[0] == "iri":
            yield (*prefix, s)
        elif t[0] == "triple":
            yield from _iri_paths(t[1], "spo", (*prefix, s))


def _lit_paths(stmt, slots, prefix=()):
    for s in slots:
        t = stmt.get(s)
        if t is None:
            continue
        if t[0] == "lit":
            yield (*prefix, s)
        elif t[0] == "triple":
            yield from _lit_paths(t[1], "spo", (*prefix, s))


def _quoted_paths(stmt, slots, prefix=()):
    for s in slots:
        t = stmt.get(s)
        if t is not None and t[0] == "triple":
            yield (*prefix, s)
            yield from _quoted_paths(t[1], "spo", (*prefix, s))


def _get(stmt, path):
    t = stmt[path[0]]
    for s in path[1:]:
        t = t[1][s]
    return t


def _set(stmt, path, value):
    stmt = copy.deepcopy(stmt)
    if len(path) == 1:
        stmt[path[0]] = value
        return stmt
    t = stmt[path[0]]
    for s in path[1:-1]:
        t = t[1][s]
    t[1][path[-1]] = value
    return stmt


def mutations(frames, options):
    """Yield (label, expected_kind, mutated_frames, (frame, row)) - at most a few per row and class."""
    nsize = options.get("max_name_table_size", 0)
    psize = options.get("max_prefix_table_size", 0)
    dsize = options.get("max_datatype_table_size", 0)
    phys = options.get("physical_type", 0)
    first_opts = True
    seen_stmt = False
    for fi, ri, row in _positions(frames):
        kind = row[0]
        pos = (fi, ri)
        if kind == "options" and first_opts:
            first_opts = False
            o = row[1]
            for label, exp, patch in (
                ("version-3", "version-unsupported", {"version": 3}),
                ("version-200", "version-unsupported", {"version": 200}),
                ("physical-unspecified", "physical-type-unsupported", {"physical_type": 0}),
                ("physical-unknown", "physical-type-unsupported", {"physical_type": 7}),
                ("name-table-7", "name-table-too-small", {"max_name_table_size": 7}),
                ("name-table-0", "name-table-too-small", {"max_name_table_size": 0}),
                ("name-table-4097", "table-too-large", {"max_name_table_size": 4097}),
                ("prefix-table-huge", "table-too-large", {"max_prefix_table_size": 2 ** 31}),
                ("datatype-table-5000", "table-too-large", {"max_datatype_table_size": 5000}),
            ):
                # all options rows of the stream get the same patch (otherwise the violation would be "options changed")
                out = copy.deepcopy(frames)
                for f in out:
                    for k, r in enumerate(f["rows"]):
                        if r[0] == "options":
                            f["rows"][k] = ("options", {**r[1], **patch})
                yield label, exp, out, pos
            out = copy.deepcopy(frames)
            del out[fi]["rows"][ri]
            if any(f["rows"] for f in out):
                nf = next(k for k, f in enumerate(out) if f["rows"])
                yield "no-options-row", "no-options-row", out, (nf, 0)
            continue
        if kind in ("name", "prefix", "datatype"):
            size = {"name": nsize, "prefix": psize, "datatype": dsize}[kind]
            yield f"{kind}-entry-id-size+1", "entry-id-out-of-range", _with_row(frames, fi, ri, (kind, size + 1, row[2])), pos
            yield f"{kind}-entry-id-max", "entry-id-out-of-range", _with_row(frames, fi, ri, (kind, BIG, row[2])), pos
            # the implicit form: id 0 = last assigned + 1, which lies beyond the table when the last one was `size`
            dec0 = _state_before(frames, fi, ri)
            if dec0 is not None and dec0.names is not None:
                table = {"name": dec0.names, "prefix": dec0.prefixes, "datatype": dec0.datatypes}[kind]
                if table.last_assigned == size and row[1] != 0:
                    yield f"{kind}-entry-id-zero-after-last-slot", "entry-id-out-of-range", _with_row(frames, fi, ri, (kind, 0, row[2])), pos
            continue
        if kind in ("triple", "quad", "graph_start", "namespace"):
            if kind == "graph_start":
                stmt, slots = {"g": row[1]}, "g"
            elif kind == "namespace":
                stmt, slots = {"v": row[2]}, "v"
            else:
                stmt, slots = row[1], ("spog" if kind == "quad" else "spo")

            def rebuild(new_stmt):
                if kind == "graph_start":
                    return ("graph_start", new_stmt["g"])
                if kind == "namespace":
                    return ("namespace", row[1], new_stmt["v"])
                return (kind, new_stmt)

            dec = None
            for path in list(_iri_paths(stmt, slots))[:3]:
                t = _get(stmt, path)
                yield ("name-ref-size+1", "name-ref-out-of-range",
                       _with_row(frames, fi, ri, rebuild(_set(stmt, path, ("iri", t[1], nsize + 1)))), pos)
                yield ("name-ref-max", "name-ref-out-of-range",
                       _with_row(frames, fi, ri, rebuild(_set(stmt, path, ("iri", t[1], BIG)))), pos)
                if psize:
                    yield ("prefix-ref-size+1", "prefix-ref-out-of-range",
                           _with_row(frames, fi, ri, rebuild(_set(stmt, path, ("iri", psize + 1, t[2])))), pos)
                else:
                    yield ("prefix-ref-disabled", "prefix-ref-with-disabled-table",
                           _with_row(frames, fi, ri, rebuild(_set(stmt, path, ("iri", 1, t[2])))), pos)
                if dec is None:
                    dec = _state_before(frames, fi, ri)
                if dec is not None and dec.names is not None:
                    free = [k for k in range(1, min(nsize, 64) + 1) if k not in dec.names.slots]
                    if free:
                        yield ("name-ref-undefined", "name-ref-undefined",
                               _with_row(frames, fi, ri, rebuild(_set(stmt, path, ("iri", t[1], free[0])))), pos)
                        yield ("name-ref-undefined-via-zero", "name-ref-undefined",
                               _with_row(frames, fi, ri, rebuild(_set(stmt, path, ("iri", t[1], 0)))), pos)
                    pfree = [k for k in range(1, min(psize, 64) + 1) if k not in dec.prefixes.slots]
                    if pfree:
                        yield ("prefix-ref-undefined", "prefix-ref-undefined",
                               _with_row(frames, fi, ri, rebuild(_set(stmt, path, ("iri", pfree[-1], t[2])))), pos)
            for path in list(_lit_paths(stmt, slots))[:2]:
                t = _get(stmt, path)
                if dsize:
                    yield ("datatype-ref-zero", "datatype-ref-zero",
                           _with_row(frames, fi, ri, rebuild(_set(stmt, path, ("lit", t[1], ("dt", 0))))), pos)
                    yield ("datatype-ref-size+1", "datatype-ref-out-of-range",
                           _with_row(frames, fi, ri, rebuild(_set(stmt, path, ("lit", t[1], ("dt", dsize + 1))))), pos)
                    if dec is None:
                        dec = _state_before(frames, fi, ri)
                    if dec is not None and dec.datatypes is not None:
                        dfree = [k for k in range(1, min(dsize, 64) + 1) if k not in dec.datatypes.slots]
                        if dfree:
                            yield ("datatype-ref-undefined", "datatype-ref-undefined",
                                   _with_row(frames, fi, ri, rebuild(_set(stmt, path, ("lit", t[1], ("dt", dfree[0]))))), pos)
                else:
                    yield ("datatype-ref-disabled", "datatype-ref-with-disabled-table",
                           _with_row(frames, fi, ri, rebuild(_set(stmt, path, ("lit", t[1], ("dt", 1))))), pos)
                    yield ("datatype-ref-zero-disabled", "datatype-ref-with-disabled-table",
                           _with_row(frames, fi, ri, rebuild(_set(stmt, path, ("lit", t[1], ("dt", 0))))), pos)
            if kind in ("triple", "quad"):
                for path in list(_quoted_paths(stmt, slots))[:2]:
                    for inner in "spo":
                        yield (f"quoted-elided-{inner}", "repeated-term-in-quoted-triple",
                               _with_row(frames, fi, ri, rebuild(_set(stmt, (*path, inner), None))), pos)
                if not seen_stmt:
                    for s in slots:
                        if stmt.get(s) is not None:
                            yield (f"first-statement-elided-{s}", "repeated-term-without-previous",
                                   _with_row(frames, fi, ri, rebuild(_set(stmt, (s,), None))), pos)
                seen_stmt = True
                # forbidden row kinds, inserted right before this statement row
                if phys == 1:
                    q = {**{k: stmt.get(k) for k in "spo"}, "g": ("default",)}
                    yield "quad-row-in-triples", "row-kind-forbidden", _insert_row(frames, fi, ri, ("quad", q)), pos
                    yield "graph-start-in-triples", "row-kind-forbidden", _insert_row(frames, fi, ri, ("graph_start", ("default",))), pos
                    yield "graph-end-in-triples", "row-kind-forbidden", _insert_row(frames, fi, ri, ("graph_end",)), pos
                elif phys == 2:
                    tr = {k: stmt.get(k) for k in "spo"}
                    if all(tr.values()):
                        yield "triple-row-in-quads", "row-kind-forbidden", _insert_row(frames, fi, ri, ("triple", tr)), pos
                    yield "graph-start-in-quads", "row-kind-forbidden", _insert_row(frames, fi, ri, ("graph_start", ("default",))), pos
                    yield "graph-end-in-quads", "row-kind-forbidden", _insert_row(frames, fi, ri, ("graph_end",)), pos
                elif phys == 3:
                    q = {**{k: stmt.get(k) for k in "spo"}, "g": ("default",)}
                    yield "quad-row-in-graphs", "row-kind-forbidden", _insert_row(frames, fi, ri, ("quad", q)), pos
            if kind == "graph_start" and phys == 3:
                # a complete triple placed before this graph start, i.e. outside any graph
                tr = {"s": ("bnode", "x"), "p": ("bnode", "y"), "o": ("lit", "z", None)}
                yield "triple-outside-graph", "triple-outside-graph", _insert_row(frames, fi, ri, ("triple", tr)), pos
        if kind == "graph_end" and phys == 3:
            tr = {"s": ("bnode", "x"), "p": ("bnode", "y"), "o": ("lit", "z", None)}
            yield "triple-after-graph-end", "triple-outside-graph", _insert_row(frames, fi, ri + 1, ("triple", tr)), (fi, ri + 1)
        if kind in ("name", "prefix") and psize == 0:
            pass
    if psize == 0:
        # a prefix entry although the prefix table is disabled, right after the options row
        for fi, ri, row in _positions(frames):
            if row[0] == "options":
                yield ("prefix-entry-disabled", "prefix-entry-with-disabled-table",
                       _insert_row(frames, fi, ri + 1, ("prefix", 1, "http://x/")), (fi, ri + 1))
                break
    if dsize == 0:
        for fi, ri, row in _positions(frames):
            if row[0] == "options":
                yield ("datatype-entry-disabled", "datatype-entry-with-disabled-table",
                       _insert_row(frames, fi, ri + 1, ("datatype", 1, "http://x/dt")), (fi, ri + 1))
                break
