"""Differential oracle over arbitrary bytes: reference decoder R vs pyjelly's parsers (used by the atheris target
fuzz/fuzz_diff.py and by the replay path of C04 / C16)."""
from __future__ import annotations

from vlib import env  # noqa: F401
from vlib import jellyref, pyj, scen
from vlib.harness import Violation

# violation kinds of R that property C16 (and C13 for headers) catalogues; anything else is never asserted on
CATALOGUED = {
    "entry-id-out-of-range", "name-ref-out-of-range", "prefix-ref-out-of-range", "datatype-ref-out-of-range",
    "name-ref-undefined", "prefix-ref-undefined", "datatype-ref-undefined", "datatype-ref-zero",
    "datatype-ref-with-disabled-table", "prefix-ref-with-disabled-table", "prefix-entry-with-disabled-table",
    "datatype-entry-with-disabled-table", "repeated-term-without-previous", "repeated-term-in-quoted-triple",
    "no-options-row", "row-kind-forbidden", "triple-outside-graph", "version-unsupported",
    "physical-type-unsupported", "name-table-too-small", "table-too-large", "type-pair-incompatible",
}


def my_hint(data: bytes) -> bool:
    """The documented truth table of the 3-byte framing heuristic, re-stated (C08 checks pyjelly's copy)."""
    return len(data) >= 3 and (data[0] != 0x0A or (data[1] == 0x0A and data[2] != 0x0A))


def classify(data: bytes):
    """-> ("skip", why) | ("valid", events) | ("invalid", kind, events_before)"""
    delimited = my_hint(data)
    res = jellyref.decode(data, delimited, "prefix")
    if res.error is None:
        if res.options is None:
            return ("skip", "no rows")
        return ("valid", res.events)
    if isinstance(res.error, jellyref.Uncatalogued) or res.error.kind not in CATALOGUED:
        return ("skip", res.error.kind)
    return ("invalid", res.error.kind, res.events)


def check_bytes(data: bytes, integrations=("generic",)):
    c = classify(data)
    if c[0] == "skip":
        return None, c
    case = {"kind": "bytes", "hex": data.hex()}
    for integ in integrations:
        items, exc = pyj.parse_flat_partial(data, integ)
        items = scen.norm_any(items)
        if c[0] == "valid":
            want = scen.norm_any(c[1])
            if exc is not None:
                return Violation(f"C04:diff:valid-stream-rejected:{type(exc).__name__}", f"R accepts the stream ({len(want)} events) but "
                                 f"{integ} parse_jelly_flat raised {exc!r}", case), c
            if items != want:
                i = next((i for i, (a, b) in enumerate(zip(items, want)) if a != b), min(len(items), len(want)))
                return Violation("C04:diff:valid-stream-decoded-differently", f"event {i}: {integ} returns {items[i:i + 1]!r}, the stream "
                                 f"denotes {want[i:i + 1]!r}", case), c
        else:
            allowed = scen.norm_any(c[2])
            if exc is None:
                return Violation(f"C16:diff:accepted:{c[1]}", f"stream is invalid ({c[1]}) but {integ} parse_jelly_flat returned "
                                 f"{len(items)} items", case), c
            if items != allowed[:len(items)]:
                return Violation(f"C16:diff:fabricated-before-raise:{c[1]}", f"{integ} yielded {items[-1:]!r} before raising; the rows "
                                 f"before the violation do not denote it", case), c
    return None, c
