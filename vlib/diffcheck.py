"""Differential oracle over arbitrary bytes: reference decoder R vs pyjelly's parsers (used by the atheris target
fuzz/fuzz_diff.py and by the replay path of C04 / C16)."""
from __future__ import annotations

from vlib import env  # noqa: F401
from vlib import jellyref, pyj, scen
from vlib.harness import Violation

# violation kinds of R that property C16 (and C13 for headers) catalogues; anything else is never asserted on
CATALOGUED = {
    "entry-id-out-of-range", "name-ref-out-of-range", "prefix-ref-out-of-range", "datatype-ref-out-of-range",
    "name-ref-undefined", "prefix-ref-undefined", "datatype-ref-undefined", "datatype-ref-zero",
    "datatype-ref-with-disabled-table", "prefix-ref-with-disabled-table", "prefix-entry-with-disabled-table",
    "datatype-entry-with-disabled-table", "repeated-term-without-previous", "repeated-term-in-quoted-triple",
    "no-options-row", "row-kind-forbidden", "triple-outside-graph", "version-unsupported",
    "physical-type-unsupported", "name-table-too-small", "table-too-large", "type-pair-incompatible",
}


def my_hint(data: bytes) -> bool:
    """The documented truth table of the 3-byte framing heuristic, re-stated (C08 checks pyjelly's copy)."""
    return len(data) >= 3 and (data[0] != 0x0A or (data[1] == 0x0A and data[2] != 0x0A))


def classify(data: bytes):
    """-> ("skip", why) | ("valid", events) | ("invalid", kind, events_before)"""
    delimited = my_hint(data)
    res = jellyref.decode(data, delimited, "prefix")
    if res.error is None:
        if res.options is None:
            return ("skip", "no rows")
        return ("valid", res.events)
    if isinstance(res.error, jellyref.Uncatalogued) or res.error.kind not in CATALOGUED:
        return ("skip", res.error.kind)
    return ("invalid", res.error.kind, res.events)


def check_bytes(data: bytes, integrations=("generic",), assert_on=("valid", "invalid")):
    c = classify(data)
    if c[0] == "skip" or c[0] not in assert_on:
        return None, c
    case = {"kind": "bytes", "hex": data.hex()}
    for integ in integrations:
        items, exc = pyj.parse_flat_partial(data, integ)
        items = scen.norm_any(items)
        if c[0] == "valid":
            want = scen.norm_any(c[1])
            if exc is not None:
                return Violation(f"C04:diff:valid-stream-rejected:{type(exc).__name__}", f"R accepts the stream ({len(want)} events) but "
                                 f"{integ} parse_jelly_flat raised {exc!r}", case), c
            if items != want:
                i = next((i for i, (a, b) in enumerate(zip(items, want)) if a != b), min(len(items), len(want)))
                return Violation("C04:diff:valid-stream-decoded-differently", f"event {i}: {integ} returns {items[i:i + 1]!r}, the stream "
                                 f"denotes {want[i:i + 1]!r}", case), c
        else:
            allowed = scen.norm_any(c[2])
            if exc is None:
                return Violation(f"C16:diff:accepted:{c[1]}", f"stream is invalid ({c[1]}) but {integ} parse_jelly_flat returned "
                                 f"{len(items)} items", case), c
            if items != allowed[:len(items)]:
                return Violation(f"C16:diff:fabricated-before-raise:{c[1]}", f"{integ} yielded {items[-1:]!r} before raising; the rows "
                                 f"before the violation do not denote it", case), c
    return None, c


def run_campaign(spec, acc, prop_prefix: str, mode: str):
    """Run one atheris differential campaign (used by C04 'valid' and C16 'invalid'); artifacts are re-checked by the
    plain path and only then become violations."""
    import glob
    import json
    import os
    import shutil
    import subprocess
    import sys

    from vlib.harness import draw_examples

    deps = os.path.join(env.VERIF, ".deps")
    if not os.path.isdir(os.path.join(deps, "atheris")):
        acc.counters["atheris_unavailable"] += 1
        return
    work = os.path.join(env.WORK, f"diff_{os.getpid()}_{spec['shard']}")
    shutil.rmtree(work, ignore_errors=True)
    corpus = os.path.join(work, "corpus")
    os.makedirs(corpus)
    for i, src in enumerate(draw_examples(scen.stream_source(max_len=5), 30, spec["seed"] * 31 + spec["shard"])):
        data, _, _ = scen.source_bytes(src)
        if data:
            with open(os.path.join(corpus, f"seed{i}"), "wb") as fh:
                fh.write(data)
    stats = os.path.join(work, "stats.json")
    cmd = [sys.executable, os.path.join(env.VERIF, "fuzz", "fuzz_diff.py"), mode, corpus, f"-runs={spec['runs']}",
           f"-seed={(spec['seed'] * 131 + spec['shard']) % (2 ** 31) or 1}", "-max_len=2048", "-timeout=20",
           "-rss_limit_mb=2048", f"-artifact_prefix={work}/", "-print_final_stats=1"]
    e = dict(os.environ, VERIF_REPO=env.REPO, PYTHONDONTWRITEBYTECODE="1", FUZZ_STATS=stats)
    try:
        p = subprocess.run(cmd, capture_output=True, text=True, env=e, timeout=spec.get("wall", 900), cwd=work)
        out = p.stderr + p.stdout
        for line in out.splitlines():
            if "stat::number_of_executed_units" in line:
                n = int(line.split(":")[-1].strip())
                acc.evaluations += n
                acc.counters["atheris_differential_execs"] += n
        if os.path.exists(stats):
            st_ = json.load(open(stats))
            acc.counters["diff_inputs_R_valid"] += st_["valid"]
            acc.counters["diff_inputs_R_catalogued_invalid"] += st_["invalid"]
            acc.counters["diff_inputs_not_asserted"] += st_["skip"]
        import hashlib

        for f in glob.glob(os.path.join(corpus, "*"))[:4000]:
            with open(f, "rb") as fh:
                d = fh.read()
            c = classify(d)
            if c[0] == mode:
                acc.nontrivial.add(hashlib.sha1(d).hexdigest()[:16])
                if len(acc.samples) < 1:
                    acc.samples.append({"kind": "bytes", "hex": d.hex(), "R_says": c[0] if c[0] == "valid" else c[1]})
        arts = [f for f in glob.glob(os.path.join(work, "*")) if os.path.basename(f).startswith(("crash-", "timeout-", "oom-"))]
        for a in arts:
            with open(a, "rb") as fh:
                d = fh.read()
            v, _c = check_bytes(d, assert_on=(mode,))
            if v is None:
                acc.counters["atheris_artifact_not_reproduced"] += 1
                continue
            v.signature = prop_prefix + v.signature.split(":", 1)[1]
            if v.signature in set(spec["known"]):
                acc.known_hits[v.signature] += 1
            else:
                acc.violations.append(v.to_json())
                break
    except subprocess.TimeoutExpired:
        acc.counters["atheris_wall_budget_hit_inconclusive"] += 1
    finally:
        shutil.rmtree(work, ignore_errors=True)
