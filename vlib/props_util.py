"""Small helpers shared by property modules."""
from __future__ import annotations

from vlib import env  # noqa: F401


class Capture:
    """Collects the Stream objects created while active (harness-side wrapper, no repository hook)."""

    def __enter__(self):
        from pyjelly.serialize import streams

        self.streams = []
        self._orig = streams.Stream.__init__
        cap = self

        def init(this, *a, **k):
            cap._orig(this, *a, **k)
            cap.streams.append(this)

        streams.Stream.__init__ = init
        return self

    def __exit__(self, *exc):
        from pyjelly.serialize import streams

        streams.Stream.__init__ = self._orig
