"""Import discipline: the tree under test is $VERIF_REPO (default /repo), never the wheel in /venv."""
from __future__ import annotations

import logging
import os
import sys
import warnings

sys.dont_write_bytecode = True
VERIF = os.path.dirname(os.path.dirname(os.path.abspath(__file__)))
REPO = os.path.abspath(os.environ.get("VERIF_REPO", "/repo"))
DEPS = os.path.join(VERIF, ".deps")
WORK = os.path.join(VERIF, ".work")


class HarnessError(Exception):
    """Anything that is the machinery's fault: exit code 2, never a verdict."""


def setup() -> None:
    if VERIF not in sys.path:
        sys.path.insert(0, VERIF)
    if os.path.isdir(DEPS) and DEPS not in sys.path:
        sys.path.append(DEPS)
    # the repository root must shadow the compiled wheel in site-packages
    sys.path[:] = [p for p in sys.path if os.path.abspath(p or ".") != REPO]
    sys.path.insert(0, REPO)
    for name in [m for m in sys.modules if m == "pyjelly" or m.startswith("pyjelly.")]:
        mod = sys.modules[name]
        f = getattr(mod, "__file__", None) or ""
        if not os.path.abspath(f).startswith(REPO + os.sep):
            del sys.modules[name]
    import pyjelly  # noqa: PLC0415

    origin = os.path.abspath(pyjelly.__file__)
    if not origin.startswith(REPO + os.sep):
        raise HarnessError(f"pyjelly imported from {origin}, expected under {REPO}")
    warnings.filterwarnings("ignore")
    logging.getLogger("rdflib").setLevel(logging.CRITICAL)
    logging.getLogger("rdflib.term").setLevel(logging.CRITICAL)
    logging.disable(logging.CRITICAL)


setup()
