"""R - reference Jelly decoder / validator / row auditor.

A transcription of the rules in DESIGN.md Appendix A on top of wire.py. Shares no code with pyjelly and
does not import google.protobuf.
"""
from __future__ import annotations

from vlib import wire

PHYS_TRIPLES, PHYS_QUADS, PHYS_GRAPHS = 1, 2, 3
TRIPLE_LOGICALS = {0, 1, 3, 13}
QUAD_LOGICALS = {0, 2, 4, 14, 114}
KNOWN_LOGICALS = TRIPLE_LOGICALS | QUAD_LOGICALS
MAX_VERSION = 2


class SpecViolation(Exception):
    def __init__(self, kind: str, frame: int, row: int, detail: str = ""):
        super().__init__(f"{kind} at frame {frame} row {row}: {detail}")
        self.kind = kind
        self.frame = frame
        self.row = row
        self.detail = detail


class Uncatalogued(SpecViolation):
    """Anomaly no property speaks about: checks must not assert anything on it."""


class Table:
    def __init__(self, size: int):
        self.size = size
        self.slots: dict[int, str] = {}
        self.last_assigned = 0

    def assign(self, raw_id: int, value: str, where):
        rid = raw_id if raw_id else self.last_assigned + 1
        if rid < 1 or rid > self.size:
            raise SpecViolation("entry-id-out-of-range", *where, f"id {raw_id} -> {rid}, size {self.size}")
        audit = {
            "raw_id": raw_id,
            "id": rid,
            "value": value,
            "resident": value in self.slots.values(),
            "zero_possible": rid == self.last_assigned + 1,
            "overwrote": self.slots.get(rid),
        }
        self.slots[rid] = value
        self.last_assigned = rid
        return audit

    def get(self, rid: int, where, what: str) -> str:
        if rid < 1 or rid > self.size:
            raise SpecViolation(f"{what}-ref-out-of-range", *where, f"id {rid}, size {self.size}")
        if rid not in self.slots:
            raise SpecViolation(f"{what}-ref-undefined", *where, f"slot {rid} never assigned")
        return self.slots[rid]


class Result:
    def __init__(self):
        self.options: dict | None = None
        self.events: list = []          # neutral statements and ["prefix", name, ["iri", s]]
        self.event_pos: list = []       # (frame, row) of each event
        self.frame_events: list = []    # per frame: list of events
        self.frame_meta: list = []      # per frame: metadata pairs
        self.audit: list = []           # per row audit dicts
        self.error: SpecViolation | None = None
        self.open_graph_at_end = False
        self.n_rows = 0

    @property
    def statements(self):
        return [e for e in self.events if e[0] != "prefix"]

    @property
    def prefixes(self):
        return [e for e in self.events if e[0] == "prefix"]


class RefDecoder:
    def __init__(self, mode: str = "strict"):
        assert mode in ("strict", "prefix", "lenient-brackets")
        self.mode = mode
        self.res = Result()
        self.opts = None
        self.names = self.prefixes = self.datatypes = None
        self.last_prefix_id = 0
        self.last_name_id = 0
        self.repeated = {"s": None, "p": None, "o": None, "g": None}
        self.graph_open = False
        self.graph_term = None
        self.frame_no = -1
        self.row_no = -1

    # ------------------------------------------------------------------ options
    def _check_options(self, o: dict, where):
        if o.get("_unknown"):
            raise Uncatalogued("options-unknown-field", *where)
        phys = o.get("physical_type", 0)
        if phys not in (1, 2, 3):
            raise SpecViolation("physical-type-unsupported", *where, str(phys))
        logical = o.get("logical_type", 0)
        if logical not in KNOWN_LOGICALS:
            raise Uncatalogued("logical-type-unknown", *where, str(logical))
        allowed = TRIPLE_LOGICALS if phys == PHYS_TRIPLES else QUAD_LOGICALS
        if logical not in allowed:
            raise SpecViolation("type-pair-incompatible", *where, f"{phys}/{logical}")
        if o.get("max_name_table_size", 0) < 8:
            raise SpecViolation("name-table-too-small", *where, str(o.get("max_name_table_size", 0)))
        for f in ("max_name_table_size", "max_prefix_table_size", "max_datatype_table_size"):
            if o.get(f, 0) > 4096:
                raise SpecViolation("table-too-large", *where, f"{f}={o.get(f)}")
        ver = o.get("version", 0)
        if ver > MAX_VERSION:
            raise SpecViolation("version-unsupported", *where, str(ver))
        if ver < 1:
            raise Uncatalogued("version-zero", *where)

    @staticmethod
    def _opts_key(o: dict):
        return tuple((k, o.get(k) or (0 if wire.OPTION_FIELDS[k][1] != "str" else ""))
                     for k in sorted(wire.OPTION_FIELDS))

    # -------------------------------------------------------------------- terms
    def _iri(self, t, where, audit_terms):
        _, pid, nid = t
        a = {"raw_prefix_id": pid, "raw_name_id": nid}
        # prefix
        if self.prefixes.size == 0:
            if pid != 0:
                raise SpecViolation("prefix-ref-with-disabled-table", *where, str(pid))
            prefix = ""
            a["prefix_id"] = 0
        else:
            rpid = pid if pid else self.last_prefix_id
            a["prefix_zero_possible"] = pid != 0 and pid == self.last_prefix_id
            if rpid == 0:
                prefix = ""
            else:
                prefix = self.prefixes.get(rpid, where, "prefix")
            if pid:
                self.last_prefix_id = pid
            a["prefix_id"] = rpid
        # name
        rnid = nid if nid else self.last_name_id + 1
        a["name_zero_possible"] = nid != 0 and nid == self.last_name_id + 1
        name = self.names.get(rnid, where, "name")
        self.last_name_id = rnid
        a["name_id"] = rnid
        a["prefix"], a["name"] = prefix, name
        audit_terms.append(a)
        return ["iri", prefix + name]

    def _literal(self, t, where):
        _, lex, kind = t
        if kind is None:
            return ["lit", lex, None, None]
        if kind[0] == "lang":
            if kind[1] == "":
                # oneof member present but empty: denotes a plain literal for every consumer I know;
                # nothing in the properties speaks about it
                return ["lit", lex, None, None]
            return ["lit", lex, kind[1], None]
        did = kind[1]
        if self.datatypes.size == 0:
            raise SpecViolation("datatype-ref-with-disabled-table", *where, str(did))
        if did == 0:
            raise SpecViolation("datatype-ref-zero", *where)
        return ["lit", lex, None, self.datatypes.get(did, where, "datatype")]

    def _term(self, t, where, audit_terms, in_quoted=False):
        k = t[0]
        if k == "iri":
            return self._iri(t, where, audit_terms)
        if k == "bnode":
            return ["bnode", t[1]]
        if k == "lit":
            return self._literal(t, where)
        if k == "default":
            return ["default"]
        if k == "triple":
            st = t[1]
            out = ["triple"]
            for slot in "spo":
                x = st.get(slot)
                if x is None:
                    raise SpecViolation("repeated-term-in-quoted-triple", *where, slot)
                out.append(self._term(x, where, audit_terms, in_quoted=True))
            return out
        raise Uncatalogued("unknown-term", *where)

    def _statement(self, st, slots, where, audit):
        out = []
        elided = []
        terms_audit = []
        for slot in slots:
            x = st.get(slot)
            if x is None:
                prev = self.repeated[slot]
                if prev is None:
                    raise SpecViolation("repeated-term-without-previous", *where, slot)
                out.append(prev)
                elided.append(slot)
            else:
                v = self._term(x, where, terms_audit)
                self.repeated[slot] = v
                out.append(v)
        audit["elided"] = elided
        audit["iris"] = terms_audit
        return out

    # --------------------------------------------------------------------- rows
    def feed_frame(self, frame: dict):
        self.frame_no += 1
        fe = []
        self.res.frame_events.append(fe)
        self.res.frame_meta.append(list(frame.get("metadata", ())))
        for i, row in enumerate(frame["rows"]):
            self.row_no = i
            self.res.n_rows += 1
            ev = self._row(row, (self.frame_no, i))
            if ev is not None:
                self.res.events.append(ev)
                self.res.event_pos.append((self.frame_no, i))
                fe.append(ev)

    def _row(self, row, where):
        kind = row[0]
        audit = {"kind": kind, "frame": where[0], "row": where[1]}
        self.res.audit.append(audit)
        if self.opts is None:
            if kind != "options":
                raise SpecViolation("no-options-row", *where, f"first row is {kind}")
            self._check_options(row[1], where)
            self.opts = row[1]
            self.res.options = dict(row[1])
            self.names = Table(row[1].get("max_name_table_size", 0))
            self.prefixes = Table(row[1].get("max_prefix_table_size", 0))
            self.datatypes = Table(row[1].get("max_datatype_table_size", 0))
            return None
        phys = self.opts.get("physical_type", 0)
        if kind == "options":
            if self._opts_key(row[1]) != self._opts_key(self.opts) or row[1].get("_unknown"):
                raise SpecViolation("options-changed", *where)
            audit["repeated_options"] = True
            return None
        if kind in ("name", "prefix", "datatype"):
            table = {"name": self.names, "prefix": self.prefixes, "datatype": self.datatypes}[kind]
            if table.size == 0:
                raise SpecViolation(f"{kind}-entry-with-disabled-table", *where)
            audit.update(table.assign(row[1], row[2], where))
            audit["table"] = kind
            return None
        if kind == "triple":
            if phys == PHYS_QUADS:
                raise SpecViolation("row-kind-forbidden", *where, "triple row in QUADS stream")
            if phys == PHYS_GRAPHS:
                if not self.graph_open:
                    raise SpecViolation("triple-outside-graph", *where)
                st = self._statement(row[1], "spo", where, audit)
                return [*st, self.graph_term]
            return self._statement(row[1], "spo", where, audit)
        if kind == "quad":
            if phys != PHYS_QUADS:
                raise SpecViolation("row-kind-forbidden", *where, "quad row in non-QUADS stream")
            return self._statement(row[1], "spog", where, audit)
        if kind == "graph_start":
            if phys != PHYS_GRAPHS:
                raise SpecViolation("row-kind-forbidden", *where, "graph_start in non-GRAPHS stream")
            if self.graph_open:
                if self.mode == "lenient-brackets":
                    pass
                else:
                    raise Uncatalogued("graph-start-while-open", *where)
            if row[1] is None:
                raise SpecViolation("graph-start-without-term", *where)
            ta = []
            self.graph_term = self._term(row[1], where, ta)
            audit["iris"] = ta
            self.graph_open = True
            return None
        if kind == "graph_end":
            if phys != PHYS_GRAPHS:
                raise SpecViolation("row-kind-forbidden", *where, "graph_end in non-GRAPHS stream")
            if not self.graph_open:
                raise Uncatalogued("graph-end-without-start", *where)
            self.graph_open = False
            self.graph_term = None
            return None
        if kind == "namespace":
            if self.opts.get("version", 0) < 2:
                if self.mode == "strict":
                    raise SpecViolation("namespace-row-in-v1-stream", *where)
            if row[2] is None:
                raise Uncatalogued("namespace-without-iri", *where)
            ta = []
            iri = self._iri(row[2], where, ta)
            audit["iris"] = ta
            return ["prefix", row[1], iri]
        if kind == "empty":
            raise Uncatalogued("row-without-content", *where)
        raise Uncatalogued("unknown-row", *where)

    def finish(self):
        if self.opts is None:
            raise SpecViolation("no-options-row", max(self.frame_no, 0), 0, "no row in the stream")
        self.res.open_graph_at_end = self.graph_open
        if self.graph_open and self.mode == "strict":
            raise SpecViolation("graph-not-closed", self.frame_no, self.row_no)


def decode_frames(frames: list[dict], mode: str = "strict", stop_on_error: bool = True) -> Result:
    dec = RefDecoder(mode)
    try:
        for f in frames:
            dec.feed_frame(f)
        dec.finish()
    except SpecViolation as exc:
        dec.res.error = exc
    return dec.res


def decode(data: bytes, delimited: bool = True, mode: str = "strict") -> Result:
    """Decode bytes. Wire-level problems are reported as Uncatalogued('wire-error')."""
    try:
        frames = wire.dec_stream(data, delimited)
    except (wire.WireError, UnicodeDecodeError, RecursionError) as exc:
        res = Result()
        res.error = Uncatalogued("wire-error", 0, 0, str(exc))
        return res
    return decode_frames(frames, mode)


def decode_prefix_tolerant(data: bytes, mode: str = "prefix") -> Result:
    """Delimited stream possibly cut mid-frame: decode the complete frames only."""
    pos = 0
    frames = []
    while pos < len(data):
        try:
            ln, p2 = wire.dec_varint(data, pos)
        except wire.WireError:
            break
        if p2 + ln > len(data):
            break
        frames.append(wire.dec_frame(data[p2:p2 + ln]))
        pos = p2 + ln
    return decode_frames(frames, mode)
