#!/venv/bin/python
"""Entry point: run_check.py <ID> [quick|thorough]  |  run_check.py --replay <file>

exit 0  property held on everything explored (KNOWN-FINDING lines possible)
exit 1  VIOLATION property=<id> replay=<path>
exit 2  harness error (never a verdict)
"""
from __future__ import annotations

import os
import sys
import traceback

os.environ.setdefault("PYTHONDONTWRITEBYTECODE", "1")
sys.dont_write_bytecode = True
sys.path.insert(0, os.path.dirname(os.path.abspath(__file__)))


def main(argv) -> int:
    # rdflib containers iterate in hash order: pin the hash seed so that a run is a pure function of VERIF_SEED
    if os.environ.get("PYTHONHASHSEED") is None:
        seed = os.environ.get("VERIF_SEED", "1") or "1"
        try:
            hs = str(int(seed) % 4294967295)
        except ValueError:
            hs = "1"
        os.environ["PYTHONHASHSEED"] = hs
        os.execv(sys.executable, [sys.executable, os.path.abspath(__file__), *argv])
    try:
        from vlib import env  # noqa: F401  (import discipline first)
        from vlib import harness
    except Exception:  # noqa: BLE001
        traceback.print_exc()
        return 2
    try:
        if len(argv) >= 2 and argv[0] == "--replay":
            return harness.run_replay(argv[1])
        if not argv:
            print(__doc__)
            return 2
        prop = argv[0].upper()
        tier = argv[1] if len(argv) > 1 else os.environ.get("VERIF_TIER", "quick")
        if tier not in ("quick", "thorough"):
            tier = "quick"
        seed = int(os.environ.get("VERIF_SEED", "1") or "1")
        return harness.run_property(prop, tier, seed)
    except harness.HarnessError as exc:
        print(f"HARNESS-ERROR {exc}", file=sys.stderr)
        traceback.print_exc()
        return 2
    except Exception:  # noqa: BLE001
        print("HARNESS-ERROR unexpected exception", file=sys.stderr)
        traceback.print_exc()
        return 2


if __name__ == "__main__":
    sys.exit(main(sys.argv[1:]))
