#!/venv/bin/python
"""Build the instructions for a fresh seeding sub-agent: tools/mk_seed_prompt.py <PROP> <round> -> /tmp/seed_prompts/<PROP>.prompt<round>

The agent gets the property text, a scratch worktree /tmp/seed<round>_wt_<PROP> and one-paragraph summaries of what earlier
agents did for the same property (so that it looks elsewhere). Nothing from /verif's checks is revealed."""
import glob
import json
import os
import sys

prop, rnd = sys.argv[1], int(sys.argv[2])
props = {json.loads(l)["id"]: json.loads(l) for l in open("/verif/properties.jsonl")}
p = props[prop]
wt = f"/tmp/seed{rnd}_wt_{prop}"
out = f"/tmp/seed{rnd}_out/{prop}"
earlier = []
for d in sorted(glob.glob(f"/verif/seeded/{prop}*")):
    if os.path.basename(d) != prop and not os.path.basename(d).startswith(prop + "-"):
        continue
    try:
        m = json.load(open(d + "/meta.json"))
    except Exception:
        continue
    if m.get("property", prop) != prop:
        continue
    earlier.append(" ".join(str(m.get("summary", "")).split())[:420])
anchors = (p.get("anchors") or {}).get("files", [])
text = f"""You are helping to evaluate a verification harness by seeding a realistic bug. You work ONLY inside the git worktree {wt} (a checkout of the Python library Jelly-RDF/pyjelly: a pure-Python encoder/decoder for Jelly, a protobuf-based streaming RDF serialization format with LRU lookup tables, delta-encoded indices and frame flows). Do not read or touch /repo or /verif, and do not look for other people's checks anywhere on the machine - your work must be independent.

Here is a semantic property of pyjelly that is supposed to always hold:

Property {prop}: {p.get('title', '')}

Statement: {p.get('statement', '')}

Quantified over: {(p.get('quantifier') or {}).get('text', '')}

Why the existing test suite cannot settle it: {p.get('why_tests_cant', '')}

Code it is anchored in: {', '.join(anchors)}


Your task: make ONE small, realistic change to the library source (under {wt}/pyjelly) that BREAKS this property, while
  (1) the code still imports/compiles,
  (2) the project's existing test suite still passes completely:  cd {wt} && /venv/bin/python -m pytest -q -p no:cacheprovider   (expect "487 passed, 145 skipped"; it takes ~5 s; afterwards run `git -C {wt} checkout -- tests` because the suite rewrites four tracked .jelly files),
  (3) the breakage needs something specific to manifest - a particular interleaving, a crash or fault at a particular point, a multi-step sequence of operations, an unusual input or configuration, or two cooperating sites that each look fine alone - i.e. NOT something ordinary use would expose at once. Think of the kind of plausible regression a maintainer could introduce in a refactoring or an optimisation (an off-by-one at a boundary, state not reset / reset too often, a cache keyed too coarsely, a guard dropped on one of two parallel code paths, a wrong condition that only matters for rare table sizes or term kinds, ...). Do not add obviously malicious code (no `if x == "magic"` backdoors) and do not just raise exceptions everywhere.

IMPORTANT environment trap: /venv/lib/python3.12/site-packages contains a DIFFERENT, compiled pyjelly wheel. `import pyjelly` only picks up your worktree when the worktree root is first on sys.path. Start every script with:
    import sys; sys.path.insert(0, "{wt}")
and verify with `import pyjelly; assert pyjelly.__file__.startswith("{wt}")`. Use /venv/bin/python (it has rdflib, protobuf, hypothesis, pytest).

Deliverables, all written to the directory {out} (create it):
  * patch.diff   - output of `git -C {wt} diff -- pyjelly` (only library files; nothing under tests/)
  * demo.py      - a small self-contained program (uses sys.argv[1] as the path of the pyjelly checkout to test, inserting it at sys.path[0] and asserting pyjelly.__file__ is under it) that exits 0 on the unmodified library and exits non-zero (assertion failure with a clear message) on your modified library. It must demonstrate a violation of the property above, not merely a difference in behaviour.
  * meta.json    - {{"property": "{prop}", "summary": "<what you changed>", "needs": "<what specific situation is needed for it to manifest>", "files": [...], "ran": ["<commands you ran and their outcome>"]}}

Before finishing you MUST have verified yourself: (a) the full suite passes with your change (paste the final pytest line into meta.json "ran"), (b) `/venv/bin/python {out}/demo.py {wt}` fails with your change, (c) the same command passes on the clean library: save your change with `git -C {wt} diff -- pyjelly > {out}/patch.diff`, run `git -C {wt} checkout -- pyjelly`, run the demo (must exit 0), then restore your change with `git -C {wt} apply {out}/patch.diff` (do NOT use `git stash`: the stash is shared by all worktrees of the repository and other engineers are working in theirs). Leave your change applied in the worktree when you finish. Reply with a 5-line summary.
"""
if earlier:
    text += f"\n\nNOTE: {len(earlier)} other engineers already seeded this property. Their changes were:\n"
    for i, e in enumerate(earlier, 1):
        text += f"  ({i}) {e}\n"
    text += (
        "Do NOT repeat any of these ideas or a close variant. Find a genuinely different mechanism, in a place nobody touched "
        "yet for this property. Ideas for where to look: numeric boundaries (table size 4096, index 0 vs 1 vs max, varint widths, "
        "frame_size 1), Unicode / byte-length vs character-length, generator laziness and the order in which side effects happen, "
        "exception and cleanup paths (finally/close), the less used logical types (13, 14, 114) and flows, rdflib-specific "
        "containers (ConjunctiveGraph, Dataset default-graph naming, Graph identifiers, quoted graphs), the options/params "
        "dataclasses (defaults, equality, copying), protobuf field presence (HasField vs truthiness, oneof handling), "
        "ioutils (delimited writer/reader, buffering), and the glue between the integration modules and the core. It must need "
        "a specific situation to manifest and must still pass the whole existing suite.\n")
os.makedirs("/tmp/seed_prompts", exist_ok=True)
path = f"/tmp/seed_prompts/{prop}.prompt{rnd}"
open(path, "w").write(text)
print(path, len(earlier), "earlier")
