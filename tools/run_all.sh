#!/bin/sh
# run_all.sh [tier] [seed ...] : every check at the given seeds; prints one line per run, lists non-zero exits at the end.
cd "$(dirname "$0")/.."
tier=${1:-quick}; shift 2>/dev/null
seeds=${*:-1}
bad=""
for s in $seeds; do
  for i in 01 02 03 04 05 06 07 08 09 10 11 12 13 14 15 16 17 18 19 20; do
    out=$(VERIF_SEED=$s ./run_check.py C$i $tier 2>&1); rc=$?
    echo "$out" | tail -1
    [ $rc -ne 0 ] && bad="$bad C$i@seed$s(exit$rc)" && echo "$out" | grep -E "VIOLATION|signature|HARNESS" | head -5
  done
done
echo "NON-ZERO:${bad:- none}"
