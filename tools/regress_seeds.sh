#!/bin/sh
cd /verif
for d in seeded/*/; do
  n=$(basename $d)
  pid=$(/venv/bin/python -c "import json;print(json.load(open('$d/meta.json'))['property'])")
  r=$(tools/eval_seed.py $pid $d --checks $pid --name $n 2>&1 | grep -E "detected_by" -A2 | tr -d '\n ')
  echo "$n $r"
done
