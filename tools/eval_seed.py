#!/venv/bin/python
"""Evaluate a seeded change produced by an independent sub-agent.

usage: eval_seed.py <ID> <dir-with-patch.diff-demo.py-meta.json> [--checks C01,C03|all] [--name NAME]
Steps (all in a scratch worktree of /repo outside /repo and /verif, removed afterwards):
  1. demo.py passes on the clean tree; 2. patch applies; 3. repository suite still passes; 4. demo.py fails;
  5. run the quick checks with VERIF_REPO=<scratch>; 6. store everything under /verif/seeded/<NAME>/.
"""
import json, os, shutil, subprocess, sys, tempfile, time

HERE = os.path.dirname(os.path.dirname(os.path.abspath(__file__)))
REPO = "/repo"
ALL = ["C%02d" % i for i in range(1, 21)]


def sh(cmd, **kw):
    return subprocess.run(cmd, shell=isinstance(cmd, str), capture_output=True, text=True, **kw)


def main():
    pid, src = sys.argv[1], os.path.abspath(sys.argv[2])
    checks = ALL
    name = pid
    if "--checks" in sys.argv:
        v = sys.argv[sys.argv.index("--checks") + 1]
        checks = ALL if v == "all" else v.split(",")
    if "--name" in sys.argv:
        name = sys.argv[sys.argv.index("--name") + 1]
    patch = os.path.join(src, "patch.diff")
    demo = os.path.join(src, "demo.py")
    d = tempfile.mkdtemp(prefix="pyjelly_seed_", dir="/tmp")
    os.rmdir(d)
    assert sh(["git", "-C", REPO, "worktree", "add", "--detach", d, "HEAD"]).returncode == 0
    evdir = tempfile.mkdtemp(prefix="verif_seed_ev_", dir="/tmp")
    rec = {"property": pid, "ran": []}
    try:
        r = sh(["/venv/bin/python", demo, d], cwd=d, timeout=600)
        rec["demo_clean_exit"] = r.returncode
        rec["ran"].append(f"demo.py on clean worktree -> exit {r.returncode}")
        r = sh(["git", "-C", d, "apply", patch])
        rec["patch_applies"] = r.returncode == 0
        if r.returncode != 0:
            rec["ran"].append("git apply failed: " + r.stderr[-300:])
        else:
            r = sh("/venv/bin/python -m pytest -q -p no:cacheprovider --timeout=900 2>&1 | tail -1", cwd=d)
            rec["suite"] = r.stdout.strip()
            rec["suite_passes"] = " passed" in r.stdout and " failed" not in r.stdout and " error" not in r.stdout
            sh(["git", "-C", d, "checkout", "--", "tests"])
            rec["ran"].append("pytest with the change -> " + rec["suite"])
            r = sh(["/venv/bin/python", demo, d], cwd=d, timeout=600)
            rec["demo_patched_exit"] = r.returncode
            rec["demo_patched_tail"] = (r.stdout + r.stderr)[-400:]
            rec["ran"].append(f"demo.py with the change -> exit {r.returncode}")
            rec["checks"] = {}
            for c in checks:
                env = dict(os.environ, VERIF_REPO=d, VERIF_EVIDENCE_DIR=evdir, VERIF_SEED=os.environ.get("VERIF_SEED", "1"))
                t0 = time.time()
                try:
                    r = sh([os.path.join(HERE, "run_check.py"), c, "quick"], env=env, cwd=HERE, timeout=1200)
                except subprocess.TimeoutExpired:
                    rec["checks"][c] = {"exit": "timeout", "signatures": [], "secs": 1200}
                    sh("pkill -f 'run_check.py %s'" % c)
                    continue
                sigs = [l.split("signature=")[1].strip() for l in r.stdout.splitlines() if l.strip().startswith("signature=")]
                rec["checks"][c] = {"exit": r.returncode, "signatures": sigs[:3], "secs": round(time.time() - t0, 1)}
                if r.returncode == 2:
                    rec["checks"][c]["stderr"] = r.stderr[-400:]
            rec["detected_by"] = [c for c, v in rec["checks"].items() if v["exit"] == 1]
            rec["harness_errors"] = [c for c, v in rec["checks"].items() if v["exit"] == 2]
            rec["ran"].append("quick checks with VERIF_REPO=<scratch worktree with the change>: detected by " + (", ".join(rec["detected_by"]) or "none"))
    finally:
        sh(["git", "-C", REPO, "worktree", "remove", "--force", d])
        shutil.rmtree(d, ignore_errors=True)
        shutil.rmtree(evdir, ignore_errors=True)
    valid = rec.get("demo_clean_exit") == 0 and rec.get("patch_applies") and rec.get("suite_passes") and rec.get("demo_patched_exit", 0) != 0
    rec["confirmed"] = bool(valid)
    out = os.path.join(HERE, "seeded", name)
    if valid or "--keep" in sys.argv:
        os.makedirs(out, exist_ok=True)
        if os.path.abspath(src) != os.path.abspath(out):
            shutil.copy(patch, os.path.join(out, "patch.diff"))
            shutil.copy(demo, os.path.join(out, "demo.py"))
        meta = {}
        mp = os.path.join(src, "meta.json")
        if os.path.exists(mp):
            try:
                meta = json.load(open(mp))
                meta.pop("evaluation", None)
            except Exception:
                meta = {"raw": open(mp).read()[:2000]}
        meta["property"] = pid
        meta["evaluation"] = rec
        json.dump(meta, open(os.path.join(out, "meta.json"), "w"), indent=1, sort_keys=True)
    print(json.dumps({k: rec.get(k) for k in ("confirmed", "demo_clean_exit", "patch_applies", "suite", "demo_patched_exit", "detected_by", "harness_errors")}, indent=1))


if __name__ == "__main__":
    main()
