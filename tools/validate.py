#!/opt/veriftools/pyvenv/bin/python
"""Validate MANIFEST.json and all evidence files against the schemas (uses the tooling venv's jsonschema)."""
import glob, json, sys, jsonschema
ok = True
m = json.load(open('/verif/MANIFEST.json'))
jsonschema.validate(m, json.load(open('/root/.vp/MANIFEST.schema.json')))
es = json.load(open('/root/.vp/EVIDENCE.schema.json'))
for c in m['checks']:
    try:
        jsonschema.validate(json.load(open('/verif/' + c['evidence_file'])), es)
    except Exception as e:
        ok = False; print('INVALID', c['evidence_file'], str(e)[:300])
print('manifest ok;', len(m['checks']), 'checks; evidence', 'ok' if ok else 'BAD')
sys.exit(0 if ok else 1)
