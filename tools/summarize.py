#!/venv/bin/python
"""Write seeded/SUMMARY.md from seeded/*/meta.json (which checks caught which independently seeded change)."""
import glob, json, os
HERE = os.path.dirname(os.path.dirname(os.path.abspath(__file__)))
rows = []
for mp in sorted(glob.glob(os.path.join(HERE, "seeded", "*", "meta.json"))):
    m = json.load(open(mp))
    ev = m.get("evaluation", {})
    name = os.path.basename(os.path.dirname(mp))
    checks = ev.get("checks", {})
    rows.append((name, m.get("property"), (m.get("summary") or "")[:150].replace("|", "/").replace("\n", " "),
                 (m.get("needs") or "")[:150].replace("|", "/").replace("\n", " "),
                 ", ".join(ev.get("detected_by", [])) or "**none**", ", ".join(sorted(checks)),
                 "yes" if ev.get("confirmed") else "no"))
out = ["# Independently seeded changes (sub-agents saw only the property text and a scratch worktree)", "",
       "Each was confirmed here: demo passes on the clean tree, patch applies, the repository suite (487 tests) still passes,",
       "demo fails with the patch. `ran` = the quick checks executed against a scratch worktree carrying the patch.", "",
       "| name | property | change | needs | detected by | checks run | confirmed |", "|---|---|---|---|---|---|---|"]
for r in rows:
    out.append("| " + " | ".join(r) + " |")
open(os.path.join(HERE, "seeded", "SUMMARY.md"), "w").write("\n".join(out) + "\n")
print(len(rows), "seeded changes")
