#!/venv/bin/python
"""Sensitivity runs: apply each deliberate breakage to a scratch worktree of /repo (outside /repo and /verif),
require the repository's own suite to still pass there, then run the targeted quick checks with
VERIF_REPO=<scratch> and expect exit 1. Results -> mutants/results.json and mutants/KILL_MATRIX.md.

usage: run_mutants.py [--only ID[,ID...]] [--all-checks]
"""
import json, os, shutil, subprocess, sys, tempfile, time

HERE = os.path.dirname(os.path.dirname(os.path.abspath(__file__)))
sys.path.insert(0, os.path.join(HERE, "mutants"))
import catalog  # noqa: E402

REPO = "/repo"
ALL = ["C%02d" % i for i in range(1, 21)]


def sh(cmd, **kw):
    return subprocess.run(cmd, shell=isinstance(cmd, str), capture_output=True, text=True, **kw)


def make_worktree():
    d = tempfile.mkdtemp(prefix="pyjelly_mut_", dir="/tmp")
    os.rmdir(d)
    r = sh(["git", "-C", REPO, "worktree", "add", "--detach", d, "HEAD"])
    assert r.returncode == 0, r.stderr
    return d


def drop_worktree(d):
    sh(["git", "-C", REPO, "worktree", "remove", "--force", d])
    shutil.rmtree(d, ignore_errors=True)


def apply_edits(d, edits):
    for f, old, new in edits:
        p = os.path.join(d, f)
        s = open(p).read()
        if s.count(old) < 1:
            return f"pattern not found in {f}: {old[:60]!r}"
        open(p, "w").write(s.replace(old, new, 1))
    return None


def apply_revert(d, subject):
    r = sh(["git", "-C", REPO, "log", "--format=%H %s"])
    sha = next((l.split()[0] for l in r.stdout.splitlines() if l.split(" ", 1)[1].startswith(subject)), None)
    if sha is None:
        return f"fix commit not found: {subject}"
    p = sh(f"git -C {REPO} show {sha} | git -C {d} apply -R -")
    if p.returncode == 0:
        return None
    # later fixes touched the same lines: revert file by file; where a file's hunks no longer fit and the fix only ADDED
    # lines there, take exactly those lines out again
    files = sh(["git", "-C", REPO, "show", "--format=", "--name-only", sha]).stdout.split()
    for f in files:
        q = sh(f"git -C {REPO} show {sha} -- {f} | git -C {d} apply -R -")
        if q.returncode == 0:
            continue
        diff = sh(["git", "-C", REPO, "show", "--format=", sha, "--", f]).stdout.splitlines()
        body = [l for l in diff if l[:1] in "+-" and not l.startswith(("+++", "---"))]
        if any(l.startswith("-") for l in body):
            return p.stderr
        path = os.path.join(d, f)
        lines = open(path).read().split("\n")
        for l in body:
            if l[1:] not in lines:
                return p.stderr
            lines.remove(l[1:])
        open(path, "w").write("\n".join(lines))
    return None


def run_suite(d):
    r = sh("/venv/bin/python -m pytest -q -p no:cacheprovider --timeout=900 -x 2>&1 | tail -3", cwd=d)
    ok = " passed" in r.stdout and "failed" not in r.stdout and "error" not in r.stdout.lower().replace("errors=0", "")
    return ok, r.stdout.strip().splitlines()[-1] if r.stdout.strip() else "?"


def run_check(pid, d, evdir, seed="1"):
    env = dict(os.environ, VERIF_REPO=d, VERIF_EVIDENCE_DIR=evdir, VERIF_SEED=seed)
    t0 = time.time()
    r = sh([os.path.join(HERE, "run_check.py"), pid, "quick"], env=env, cwd=HERE)
    sigs = [l.split("signature=")[1].strip() for l in r.stdout.splitlines() if l.strip().startswith("signature=")]
    return r.returncode, sigs, round(time.time() - t0, 1)


def main():
    only = None
    allchecks = "--all-checks" in sys.argv
    if "--only" in sys.argv:
        only = set(sys.argv[sys.argv.index("--only") + 1].split(","))
    items = [(i, t, ("edits", e)) for i, t, e in catalog.MUTANTS] + [(i, t, ("revert", s)) for i, t, s in catalog.REVERTS]
    res_path = os.path.join(HERE, "mutants", "results.json")
    results = json.load(open(res_path)) if os.path.exists(res_path) else {}
    evdir = tempfile.mkdtemp(prefix="verif_mut_ev_", dir="/tmp")
    for mid, targets, (kind, payload) in items:
        if only and mid not in only:
            continue
        d = make_worktree()
        try:
            err = apply_edits(d, payload) if kind == "edits" else apply_revert(d, payload)
            if err:
                results[mid] = {"status": "not-applicable", "detail": err}
                print(mid, "NOT APPLIED", err)
                continue
            diff = sh(["git", "-C", d, "diff"]).stdout
            os.makedirs(os.path.join(HERE, "mutants", "patches"), exist_ok=True)
            open(os.path.join(HERE, "mutants", "patches", mid + ".patch"), "w").write(diff)
            ok, tail = run_suite(d)
            sh(["git", "-C", d, "checkout", "--", "tests"])
            rec = {"status": "ok" if ok else "suite-fails", "suite": tail, "targets": targets, "checks": {}}
            if ok:
                for pid in (ALL if allchecks else targets):
                    code, sigs, secs = run_check(pid, d, evdir)
                    rec["checks"][pid] = {"exit": code, "signatures": sigs[:4], "secs": secs}
                rec["killed_by"] = [p for p, c in rec["checks"].items() if c["exit"] == 1]
            results[mid] = rec
            print(mid, rec["status"], rec.get("killed_by"), {p: c["exit"] for p, c in rec["checks"].items()}, flush=True)
        finally:
            drop_worktree(d)
            json.dump(results, open(res_path, "w"), indent=1, sort_keys=True)
    shutil.rmtree(evdir, ignore_errors=True)
    shutil.rmtree(os.path.join(HERE, "replays"), ignore_errors=False) if False else None
    lines = ["# Kill matrix (tools/run_mutants.py)", "",
             "Each mutant is applied to a scratch worktree; the repository's own suite must still pass there; then the",
             "targeted quick checks run with VERIF_REPO=<scratch>. exit 1 = killed.", "",
             "| mutant | suite | targeted checks (exit) | killed by | first signatures |", "|---|---|---|---|---|"]
    for mid in sorted(results):
        r = results[mid]
        if r["status"] != "ok":
            lines.append(f"| {mid} | {r['status']}: {r.get('suite', r.get('detail', ''))[:60]} | - | - | - |")
            continue
        chk = ", ".join(f"{p}:{c['exit']}" for p, c in sorted(r["checks"].items()))
        sig = "; ".join(s for c in r["checks"].values() for s in c["signatures"][:1])[:160]
        lines.append(f"| {mid} | passes | {chk} | {', '.join(r['killed_by']) or '**none**'} | {sig} |")
    open(os.path.join(HERE, "mutants", "KILL_MATRIX.md"), "w").write("\n".join(lines) + "\n")


if __name__ == "__main__":
    main()
