#!/venv/bin/python
"""Writes /verif/MANIFEST.json from the table below (single source of truth for the interface)."""
from __future__ import annotations

import json
import os

HERE = os.path.dirname(os.path.dirname(os.path.abspath(__file__)))

# id -> (level, technique, level text, level note, design ref)
CHECKS = {
    "C01": (
        "exploration",
        "Hypothesis round trip (sequence equality) over generated statements x configurations",
        "Generated statement sequences over all term kinds (quoted, generalized, empty / non-ASCII / separator-less IRIs) x "
        "physical type x five generic entry points x boundary presets (tables exactly as large as one statement needs, +1, "
        "disabled) x frame sizes x delimited / single frame x three readers; the parsed sequence must equal the input term by "
        "term in order. Sampled search, thousands of cases per run, non-triviality measured from the reference decoder's "
        "audit (evictions, elisions, multi-frame).",
        "Trusted: Hypothesis generators stay inside the stated domain (tables >= IRI / datatype occurrences of the largest "
        "statement); pyjelly's reader is both subject and instrument here (C03 removes that dependency).",
        "DESIGN.md 2/C01",
    ),
    "C02": (
        "exploration",
        "Hypothesis round trip (set equality over rdflib terms) through Graph/Dataset entry points",
        "Generated RDF 1.1 data built into rdflib Graph / Dataset, written through Graph.serialize (bytes and destination), "
        "stream_frames, flat_/grouped_stream_to_file with flat and grouped logical types, QuadStream and GraphStream, "
        "boundary presets, delimited and non-delimited; read through Graph/Dataset.parse and the three parse functions; the "
        "set of quads held by the source container must equal the set read.",
        "Trusted: rdflib objects are the ground truth (rdflib normalises lexical forms; cannot hold falsy graph names).",
        "DESIGN.md 2/C02",
    ),
    "C03": (
        "exploration",
        "independent reference decoder (own wire codec + spec state machine) as oracle on every generated output",
        "Every byte string produced in the C01/C02 write scenarios is decoded by R, which shares no code with pyjelly or "
        "protobuf and enforces each clause of the property as a separate violation kind; R's decoding must equal the input. "
        "A symmetric writer+reader mistake is therefore visible. Also: namespace-declaration scenarios, eight streams that fill "
        "and recycle 128..4096-entry tables, a sweep of frame lengths across the 2^7 / 2^14 / 2^21 length-prefix boundaries, and a "
        "Hypothesis rule-based state machine over the public Stream API whose every prefix must be valid for R.",
        "Trusted: R is my transcription of the Jelly spec (DESIGN.md appendix A).",
        "DESIGN.md 2/C03",
    ),
    "C04": (
        "exploration",
        "reference encoder with tape-drawn producer choices -> differential against six parse entry points",
        "Ground truth -> reference encoder E making every legal producer choice from a Hypothesis-drawn choice tape -> bytes "
        "(validated by R first) -> parse_jelly_flat / grouped / to_graph of both integrations must return the ground truth. "
        "Reaches decoder paths pyjelly's own writer never exercises (non-LRU eviction, odd IRI splits, explicit ids, early / "
        "redundant entries, un-elided repeats, empty frames, repeated options). Every case is also parsed in lock-step with the "
        "previous case's stream, and an atheris coverage-guided differential campaign asserts that whatever R calls a valid "
        "stream parses to R's events.",
        "Trusted: E and R (my reading of the spec); rdflib term construction.",
        "DESIGN.md 2/C04",
    ),
    "C05": (
        "exploration",
        "exhaustive joint-state closure on the real encoder/decoder objects + Hypothesis rule-based state machine + long walks",
        "Breadth-first closure of the reachable joint state space (LRU order x index assignment x last-assigned x last-reused "
        "x reader table) of a real LookupEncoder coupled to a real LookupDecoder under key-renaming canonicalisation, for the "
        "name, prefix (empty prefix distinguished) and datatype rules, completed for sizes 1..7/6/7 (quick) and 1..8/7/8 "
        "(thorough): at those sizes the mirror invariant holds for every history. Larger sizes and the full TermEncoder -> "
        "rows -> Decoder path (single terms, whole statements on tables 1..8 that must be refused or right, namespace "
        "declarations) are sampled by a RuleBasedStateMachine and long walks.",
        "Trusted: the renaming symmetry (tables compare keys only for equality; only the empty prefix is special). "
        "No claim beyond the enumerated sizes other than the sampled evidence.",
        "DESIGN.md 2/C05",
    ),
    "C06": (
        "exploration",
        "exhaustive configuration-lattice enumeration x Hypothesis-generated inputs, raise-or-round-trip oracle",
        "All ~15 600 points of stream class x 8 logical types x delimited x frame_size x 13 flow choices x 10 entry points are "
        "executed with generated inputs; each must raise or write bytes that decode (reference decoder and pyjelly) to the "
        "input, leaving no rows in any captured stream's flow.",
        "Trusted: R; the harness-side wrapper that captures Stream objects; the writer choice matching params.delimited.",
        "DESIGN.md 2/C06",
    ),
    "C07": (
        "exploration",
        "metamorphic re-framing of opaque row blobs + per-frame grouped oracle from the reference decoder",
        "Rows of valid streams (pyjelly- and E-written) are re-cut into arbitrary frame partitions with empty frames and "
        "metadata; flat parse must not change, grouped parse must give one sink per frame with exactly that frame's statements "
        "and metadata; grouped serialisation of 1..6 sinks through one stream must give one statement-carrying frame per "
        "non-empty input, decoded by R.",
        "Trusted: my wire codec for splitting rows; R for per-frame content. Known finding F10 is excluded by construction "
        "and reproduced from its replay.",
        "DESIGN.md 2/C07",
    ),
    "C09": (
        "fault_enumeration",
        "scripted short-read schedules on non-seekable sources (fault injection) vs BytesIO baseline",
        "Valid streams are served through a RawIOBase double following drawn short-read schedules (exhaustively first read "
        "1..3 x second 1,2,5), BufferedReader over it, real files, gzip, and in the thorough tier real pipes and sockets; "
        "every parse entry point must return what it returns for BytesIO.",
        "Trusted: the test doubles implement the io contracts; kernel coalescing limits control over real pipes.",
        "DESIGN.md 2/C09",
    ),
    "C10": (
        "fault_enumeration",
        "crash-point enumeration: every cut offset of every generated stream, prefix + completeness oracle",
        "For each generated delimited stream every byte offset 0..len is cut; flat and grouped parsers (BytesIO and "
        "short-reading raw source) must yield a prefix of the full parse and at least all statements of completely delivered "
        "frames.",
        "Trusted: frame end offsets from my wire codec; R for per-frame event counts.",
        "DESIGN.md 2/C10",
    ),
    "C11": (
        "exploration",
        "instrumented pull/yield event log on write; stalling byte source at every frame boundary on parse",
        "Write: an instrumented input iterator records pending rows at every pull and the reference decoder checks at every "
        "frame hand-over that frames so far hold exactly the statements pulled so far. Parse: for every frame boundary j the "
        "source raises when asked for a byte beyond frame j; everything of frames 1..j must have been yielded before.",
        "Trusted: Stream objects captured by a harness-side constructor wrapper; a read with nothing delivered models a "
        "blocking socket.",
        "DESIGN.md 2/C11",
    ),
    "C12": (
        "exploration",
        "harness-owned generator interleavings and prior histories vs solo output; hash-seed subprocesses; threads",
        "2..5 serializer / parser generators are stepped in a Hypothesis-drawn interleaving after a drawn history of "
        "abandoned / failed streams (configuration twins share one options object; statement-level drivers switch while rows "
        "are pending); each output must equal its solo run computed in a pristine process; the same inputs are serialised in subprocesses "
        "with four PYTHONHASHSEED values (identical digests) and in real threads with a 1 microsecond switch interval.",
        "Thread schedules are not owned by the harness (supplementary evidence only).",
        "DESIGN.md 2/C12",
    ),
    "C13": (
        "exploration",
        "Hypothesis header round trip checked against the wire + exhaustive accept/reject tables",
        "Headers over all option fields are written by pyjelly, read back by get_options_and_frames and independently off the "
        "wire; the 3x8 construction table, 4x8 parse table, name-table minimum, table maximum, version gate and the 8x2x2x2 "
        "strict-logical-type gates are enumerated completely with crafted headers.",
        "Trusted: the spec compatibility matrix copied into the check; my wire codec for crafted headers.",
        "DESIGN.md 2/C13",
    ),
    "C14": (
        "exploration",
        "Hypothesis bindings x statements: event order, mapping after parse, re-serialisation, on/off metamorphic relation",
        "Generated binding lists and statements through both integrations and all physical types with tiny tables: declarations "
        "on the wire (R), Prefix events, namespaces after parse_jelly_to_graph and after re-serialisation must equal the "
        "source's bindings; statements with the option on == off == input; option off writes no declaration.",
        "Trusted: rdflib's own binding rules define the rdflib ground truth; prefixes avoid rdflib's built-ins.",
        "DESIGN.md 2/C14",
    ),
    "C15": (
        "exploration",
        "differential: six parse entry points and two serializers on the same generated data",
        "The same valid RDF 1.1 bytes (pyjelly- and E-written) go through flat / grouped / to-graph of both integrations and "
        "must agree term for term; the same statements and options through both serializers must give identical bytes.",
        "Trusted: lexical forms are pre-canonicalised through rdflib so rdflib's literal normalisation is not a difference.",
        "DESIGN.md 2/C15",
    ),
    "C16": (
        "fault_enumeration",
        "fault injection: one catalogued spec violation x every row position, confirmed invalid by the reference decoder",
        "For each generated valid stream every row position x every applicable violation class is injected (about 45 classes); "
        "only mutations that R rejects with the intended kind at the intended row are used; pyjelly's flat and grouped parsers "
        "must raise and must not have yielded anything the rows before the violation do not denote. An atheris differential "
        "campaign asserts the same for arbitrary bytes that R rejects with a catalogued kind.",
        "Trusted: R's classification; assert statements active (no python -O).",
        "DESIGN.md 2/C16",
    ),
    "C17": (
        "exploration",
        "watch-dogged generated / mutated / hostile inputs + atheris coverage-guided fuzzing with structure-aware mutator",
        "Random bytes, mutated valid streams and structure-aware hostile streams run through eight entry-point variants in "
        "forked workers supervised for death, wall time and RSS growth; atheris campaigns (seeded and empty corpus) on four "
        "entry points, artifacts re-checked by the plain replay path.",
        "Trusted: protobuf/upb limits; RSS measured with ru_maxrss; libFuzzer seeds pin a campaign only approximately.",
        "DESIGN.md 2/C17, 3",
    ),
    "C18": (
        "exploration",
        "Hypothesis overflow statements: raise-or-reference-decode round trip, no blanket refusal",
        "Statements needing more distinct prefix / datatype / name entries than the table holds, and their fitting "
        "neighbours; serialisation must raise or the bytes must decode (by R) to the input; with roomy tables it must not raise.",
        "Trusted: R; demand computed with the documented split rule.",
        "DESIGN.md 2/C18",
    ),
    "C19": (
        "exploration",
        "row-level audit of generated outputs by the reference decoder (redundant entry / missed elision / missed zero / size bound)",
        "Every entry row, term slot and id field of every generated output is audited by R: no entry for a resident string, "
        "every repeatable term elided, zero forms used whenever equivalent, one graph start per run of equal graph names, "
        "size <= naive encoding.",
        "Trusted: R's audit; input equality semantics of the integration's term classes.",
        "DESIGN.md 2/C19",
    ),
    "C20": (
        "fault_enumeration",
        "fault injection: poison position x slot x cause enumerated + Hypothesis sequences, catch-and-continue, decoded by R",
        "Every (position, slot, cause) of a fixed sequence per stream class and encoder is enumerated, plus generated "
        "sequences with 1..3 poisons; after catch-and-continue the bytes must decode (R) to exactly the accepted statements "
        "and every prefix written before a failure must be a decodable prefix.",
        "Trusted: R in prefix / lenient-bracket mode; the caller model (catch Exception, reuse stream, flush flow).",
        "DESIGN.md 2/C20",
    ),
    "C08": (
        "exploration",
        "exhaustive enumeration of header grammar + Hypothesis paired-output round trip",
        "All ~2.1e6 distinct 3-byte headers a valid stream can start with (every first-frame length 0..2^21, every "
        "first-row length that changes the first three bytes, both modes) are enumerated completely against the hint "
        "(ground truth = construction mode); plus Hypothesis-generated content written by pyjelly in both modes with "
        "options-row / first-frame lengths steered onto 10, 127/128 and 16383/16384 must parse to the input through "
        "both integrations. Exhaustive for the pure function; sampled for the end-to-end clause.",
        "Trusted: my grammar of what a valid stream starts with (options row >= 6 bytes first; first frame empty or "
        "starting with a row, as the property states); protobuf wire encoding of varints.",
        "DESIGN.md 2/C08",
    ),
}

NOT_YET = {
}


def main():
    props = [json.loads(l) for l in open(os.path.join(HERE, "properties.jsonl"), encoding="utf-8")]
    checks = []
    na = []
    for p in props:
        pid = p["id"]
        if pid in CHECKS:
            level, tech, text, note, ref = CHECKS[pid]
            checks.append({
                "property_id": pid,
                "quick_cmd": f"./run_check.py {pid} quick",
                "thorough_cmd": f"./run_check.py {pid} thorough",
                "evidence_file": f"evidence/{pid}.json",
                "replay_cmd_template": "./run_check.py --replay {path}",
                "engine": "pbt-harness",
                "level_claimed": {"category": level, "text": text, "design_ref": ref},
                "level_note": note,
                "technique": tech,
            })
        else:
            na.append({"property_id": pid, "reason": NOT_YET.get(
                pid, "check not built yet in this session (planned with the same technique, see DESIGN.md 2); "
                     "not claimed until its check is registered")})
    manifest = {
        "version": 1,
        "setup_cmd": "./setup.sh",
        "hooks": {
            "guard": "PYJELLY_VERIF",
            "enable": "none needed: all observation points are reached from the harness process "
                      "(explicit flows, instrumented iterators and byte sources, wrapped constructors); "
                      "checks import the working tree at $VERIF_REPO (default /repo) directly",
            "baseline_off_cmd": "cd /repo && /venv/bin/python -m pytest -ra -q -p no:cacheprovider --timeout=900 "
                                "--continue-on-collection-errors",
            "source_commits": [],
            "add_only": True,
        },
        "engines": [{
            "name": "pbt-harness",
            "path": "run_check.py",
            "serves_properties": [c["property_id"] for c in checks],
            "kind_free_text": "Hypothesis strategies / state machines, bounded-exhaustive enumeration and fault "
                              "enumeration over 16 worker processes, atheris fuzzing; independent wire codec, "
                              "reference decoder and reference encoder as oracles; shrunk failures saved as replay files",
        }],
        "checks": checks,
        "not_applicable": na,
        "notes": "Every check: ./run_check.py <ID> quick|thorough, honours VERIF_SEED, rewrites evidence/<ID>.json, "
                 "exit 0 held / 1 VIOLATION / 2 harness error. Known findings: known_findings.txt.",
    }
    with open(os.path.join(HERE, "MANIFEST.json"), "w", encoding="utf-8") as fh:
        json.dump(manifest, fh, indent=1)
        fh.write("\n")
    print(f"MANIFEST.json: {len(checks)} checks, {len(na)} not claimed")


if __name__ == "__main__":
    main()
