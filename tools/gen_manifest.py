#!/venv/bin/python
"""Writes /verif/MANIFEST.json from the table below (single source of truth for the interface)."""
from __future__ import annotations

import json
import os

HERE = os.path.dirname(os.path.dirname(os.path.abspath(__file__)))

# id -> (level, technique, level text, level note, design ref)
CHECKS = {
    "C01": (
        "exploration",
        "Hypothesis round trip (sequence equality) over generated statements x configurations",
        "Generated statement sequences over all term kinds (quoted, generalized, empty / non-ASCII / separator-less IRIs) x "
        "physical type x five generic entry points x boundary presets (tables exactly as large as one statement needs, +1, "
        "disabled) x frame sizes x delimited / single frame x three readers; the parsed sequence must equal the input term by "
        "term in order. Sampled search, thousands of cases per run, non-triviality measured from the reference decoder's "
        "audit (evictions, elisions, multi-frame).",
        "Trusted: Hypothesis generators stay inside the stated domain (tables >= IRI / datatype occurrences of the largest "
        "statement); pyjelly's reader is both subject and instrument here (C03 removes that dependency).",
        "DESIGN.md 2/C01",
    ),
    "C02": (
        "exploration",
        "Hypothesis round trip (set equality over rdflib terms) through Graph/Dataset entry points",
        "Generated RDF 1.1 data built into rdflib Graph / Dataset, written through Graph.serialize (bytes and destination), "
        "stream_frames, flat_/grouped_stream_to_file with flat and grouped logical types, QuadStream and GraphStream, "
        "boundary presets, delimited and non-delimited; read through Graph/Dataset.parse and the three parse functions; the "
        "set of quads held by the source container must equal the set read.",
        "Trusted: rdflib objects are the ground truth (rdflib normalises lexical forms; cannot hold falsy graph names).",
        "DESIGN.md 2/C02",
    ),
    "C03": (
        "exploration",
        "independent reference decoder (own wire codec + spec state machine) as oracle on every generated output",
        "Every byte string produced in the C01/C02 write scenarios is decoded by R, which shares no code with pyjelly or "
        "protobuf and enforces each clause of the property as a separate violation kind; R's decoding must equal the input. "
        "A symmetric writer+reader mistake is therefore visible.",
        "Trusted: R is my transcription of the Jelly spec (DESIGN.md appendix A).",
        "DESIGN.md 2/C03",
    ),
    "C04": (
        "exploration",
        "reference encoder with tape-drawn producer choices -> differential against six parse entry points",
        "Ground truth -> reference encoder E making every legal producer choice from a Hypothesis-drawn choice tape -> bytes "
        "(validated by R first) -> parse_jelly_flat / grouped / to_graph of both integrations must return the ground truth. "
        "Reaches decoder paths pyjelly's own writer never exercises (non-LRU eviction, odd IRI splits, explicit ids, early / "
        "redundant entries, un-elided repeats, empty frames, repeated options).",
        "Trusted: E and R (my reading of the spec); rdflib term construction.",
        "DESIGN.md 2/C04",
    ),
    "C18": (
        "exploration",
        "Hypothesis overflow statements: raise-or-reference-decode round trip, no blanket refusal",
        "Statements needing more distinct prefix / datatype / name entries than the table holds, and their fitting "
        "neighbours; serialisation must raise or the bytes must decode (by R) to the input; with roomy tables it must not raise.",
        "Trusted: R; demand computed with the documented split rule.",
        "DESIGN.md 2/C18",
    ),
    "C19": (
        "exploration",
        "row-level audit of generated outputs by the reference decoder (redundant entry / missed elision / missed zero / size bound)",
        "Every entry row, term slot and id field of every generated output is audited by R: no entry for a resident string, "
        "every repeatable term elided, zero forms used whenever equivalent, one graph start per run of equal graph names, "
        "size <= naive encoding.",
        "Trusted: R's audit; input equality semantics of the integration's term classes.",
        "DESIGN.md 2/C19",
    ),
    "C20": (
        "fault_enumeration",
        "fault injection: poison position x slot x cause enumerated + Hypothesis sequences, catch-and-continue, decoded by R",
        "Every (position, slot, cause) of a fixed sequence per stream class and encoder is enumerated, plus generated "
        "sequences with 1..3 poisons; after catch-and-continue the bytes must decode (R) to exactly the accepted statements "
        "and every prefix written before a failure must be a decodable prefix.",
        "Trusted: R in prefix / lenient-bracket mode; the caller model (catch Exception, reuse stream, flush flow).",
        "DESIGN.md 2/C20",
    ),
    "C08": (
        "exploration",
        "exhaustive enumeration of header grammar + Hypothesis paired-output round trip",
        "All ~2.1e6 distinct 3-byte headers a valid stream can start with (every first-frame length 0..2^21, every "
        "first-row length that changes the first three bytes, both modes) are enumerated completely against the hint "
        "(ground truth = construction mode); plus Hypothesis-generated content written by pyjelly in both modes with "
        "options-row / first-frame lengths steered onto 10, 127/128 and 16383/16384 must parse to the input through "
        "both integrations. Exhaustive for the pure function; sampled for the end-to-end clause.",
        "Trusted: my grammar of what a valid stream starts with (options row >= 6 bytes first; first frame empty or "
        "starting with a row, as the property states); protobuf wire encoding of varints.",
        "DESIGN.md 2/C08",
    ),
}

NOT_YET = {
}


def main():
    props = [json.loads(l) for l in open(os.path.join(HERE, "properties.jsonl"), encoding="utf-8")]
    checks = []
    na = []
    for p in props:
        pid = p["id"]
        if pid in CHECKS:
            level, tech, text, note, ref = CHECKS[pid]
            checks.append({
                "property_id": pid,
                "quick_cmd": f"./run_check.py {pid} quick",
                "thorough_cmd": f"./run_check.py {pid} thorough",
                "evidence_file": f"evidence/{pid}.json",
                "replay_cmd_template": "./run_check.py --replay {path}",
                "engine": "pbt-harness",
                "level_claimed": {"category": level, "text": text, "design_ref": ref},
                "level_note": note,
                "technique": tech,
            })
        else:
            na.append({"property_id": pid, "reason": NOT_YET.get(
                pid, "check not built yet in this session (planned with the same technique, see DESIGN.md 2); "
                     "not claimed until its check is registered")})
    manifest = {
        "version": 1,
        "setup_cmd": "./setup.sh",
        "hooks": {
            "guard": "PYJELLY_VERIF",
            "enable": "none needed: all observation points are reached from the harness process "
                      "(explicit flows, instrumented iterators and byte sources, wrapped constructors); "
                      "checks import the working tree at $VERIF_REPO (default /repo) directly",
            "baseline_off_cmd": "cd /repo && /venv/bin/python -m pytest -ra -q -p no:cacheprovider --timeout=900 "
                                "--continue-on-collection-errors",
            "source_commits": [],
            "add_only": True,
        },
        "engines": [{
            "name": "pbt-harness",
            "path": "run_check.py",
            "serves_properties": [c["property_id"] for c in checks],
            "kind_free_text": "Hypothesis strategies / state machines, bounded-exhaustive enumeration and fault "
                              "enumeration over 16 worker processes, atheris fuzzing; independent wire codec, "
                              "reference decoder and reference encoder as oracles; shrunk failures saved as replay files",
        }],
        "checks": checks,
        "not_applicable": na,
        "notes": "Every check: ./run_check.py <ID> quick|thorough, honours VERIF_SEED, rewrites evidence/<ID>.json, "
                 "exit 0 held / 1 VIOLATION / 2 harness error. Known findings: known_findings.txt.",
    }
    with open(os.path.join(HERE, "MANIFEST.json"), "w", encoding="utf-8") as fh:
        json.dump(manifest, fh, indent=1)
        fh.write("\n")
    print(f"MANIFEST.json: {len(checks)} checks, {len(na)} not claimed")


if __name__ == "__main__":
    main()
