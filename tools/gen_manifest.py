#!/venv/bin/python
"""Writes /verif/MANIFEST.json from the table below (single source of truth for the interface)."""
from __future__ import annotations

import json
import os

HERE = os.path.dirname(os.path.dirname(os.path.abspath(__file__)))

# id -> (level, technique, level text, level note, design ref)
CHECKS = {
    "C08": (
        "exploration",
        "exhaustive enumeration of header grammar + Hypothesis paired-output round trip",
        "All ~2.1e6 distinct 3-byte headers a valid stream can start with (every first-frame length 0..2^21, every "
        "first-row length that changes the first three bytes, both modes) are enumerated completely against the hint "
        "(ground truth = construction mode); plus Hypothesis-generated content written by pyjelly in both modes with "
        "options-row / first-frame lengths steered onto 10, 127/128 and 16383/16384 must parse to the input through "
        "both integrations. Exhaustive for the pure function; sampled for the end-to-end clause.",
        "Trusted: my grammar of what a valid stream starts with (options row >= 6 bytes first; first frame empty or "
        "starting with a row, as the property states); protobuf wire encoding of varints.",
        "DESIGN.md 2/C08",
    ),
}

NOT_YET = {
}


def main():
    props = [json.loads(l) for l in open(os.path.join(HERE, "properties.jsonl"), encoding="utf-8")]
    checks = []
    na = []
    for p in props:
        pid = p["id"]
        if pid in CHECKS:
            level, tech, text, note, ref = CHECKS[pid]
            checks.append({
                "property_id": pid,
                "quick_cmd": f"./run_check.py {pid} quick",
                "thorough_cmd": f"./run_check.py {pid} thorough",
                "evidence_file": f"evidence/{pid}.json",
                "replay_cmd_template": "./run_check.py --replay {path}",
                "engine": "pbt-harness",
                "level_claimed": {"category": level, "text": text, "design_ref": ref},
                "level_note": note,
                "technique": tech,
            })
        else:
            na.append({"property_id": pid, "reason": NOT_YET.get(
                pid, "check not built yet in this session (planned with the same technique, see DESIGN.md 2); "
                     "not claimed until its check is registered")})
    manifest = {
        "version": 1,
        "setup_cmd": "./setup.sh",
        "hooks": {
            "guard": "PYJELLY_VERIF",
            "enable": "none needed: all observation points are reached from the harness process "
                      "(explicit flows, instrumented iterators and byte sources, wrapped constructors); "
                      "checks import the working tree at $VERIF_REPO (default /repo) directly",
            "baseline_off_cmd": "cd /repo && /venv/bin/python -m pytest -ra -q -p no:cacheprovider --timeout=900 "
                                "--continue-on-collection-errors",
            "source_commits": [],
            "add_only": True,
        },
        "engines": [{
            "name": "pbt-harness",
            "path": "run_check.py",
            "serves_properties": [c["property_id"] for c in checks],
            "kind_free_text": "Hypothesis strategies / state machines, bounded-exhaustive enumeration and fault "
                              "enumeration over 16 worker processes, atheris fuzzing; independent wire codec, "
                              "reference decoder and reference encoder as oracles; shrunk failures saved as replay files",
        }],
        "checks": checks,
        "not_applicable": na,
        "notes": "Every check: ./run_check.py <ID> quick|thorough, honours VERIF_SEED, rewrites evidence/<ID>.json, "
                 "exit 0 held / 1 VIOLATION / 2 harness error. Known findings: known_findings.txt.",
    }
    with open(os.path.join(HERE, "MANIFEST.json"), "w", encoding="utf-8") as fh:
        json.dump(manifest, fh, indent=1)
        fh.write("\n")
    print(f"MANIFEST.json: {len(checks)} checks, {len(na)} not claimed")


if __name__ == "__main__":
    main()
