#!/venv/bin/python
"""mkreplay.py <ID> <name> <case.json|-> : store a case as a committed regression replay."""
import json, os, sys
pid, name, src = sys.argv[1:4]
case = json.load(sys.stdin if src == "-" else open(src))
if "case" in case and "property" in case:
    rec = case
else:
    rec = {"property": pid, "signature": name, "message": "regression replay", "case": case}
d = os.path.join(os.path.dirname(os.path.dirname(os.path.abspath(__file__))), "replays", pid)
os.makedirs(d, exist_ok=True)
path = os.path.join(d, name + ".json")
json.dump(rec, open(path, "w"), indent=1, sort_keys=True)
print(path)
