#!/bin/sh
# Offline setup: hypothesis beside the repository's packages, atheris into /verif/.deps (git-ignored).
set -e
cd "$(dirname "$0")"
export PIP_NO_INDEX=1 PIP_DISABLE_PIP_VERSION_CHECK=1
/venv/bin/python -c "import hypothesis" 2>/dev/null || \
  /venv/bin/pip install -q --no-index --find-links /opt/veriftools/wheels hypothesis
mkdir -p .deps .work evidence
/venv/bin/python -c "import sys; sys.path.insert(0,'.deps'); import atheris" 2>/dev/null || \
  /venv/bin/pip install -q --no-index --find-links /opt/veriftools/wheels --target .deps atheris || \
  echo "setup: atheris not installable; fuzz tier will be skipped" >&2
/venv/bin/python -c "import hypothesis, rdflib, google.protobuf; print('setup ok: hypothesis', hypothesis.__version__)"
