#!/venv/bin/python
"""atheris target for C17: one entry function, all state created inside the iteration.

usage: fuzz_parse.py <target> [libFuzzer args...]      target in {generic_flat, generic_grouped, rdflib_flat, rdflib_grouped}
The oracle is inside the target: an ordinary Exception is fine, anything else (BaseException, crash, libFuzzer
-timeout / -rss_limit_mb) is a finding; the supervising check re-runs every artifact through the plain check_case.
"""
import io
import os
import sys

HERE = os.path.dirname(os.path.dirname(os.path.abspath(__file__)))
sys.path.insert(0, HERE)
sys.path.append(os.path.join(HERE, ".deps"))
import atheris  # noqa: E402

from vlib import env  # noqa: E402,F401
from vlib import wire  # noqa: E402

with atheris.instrument_imports(include=["pyjelly"]):
    from pyjelly.integrations.generic import parse as gparse
    from pyjelly.integrations.rdflib import parse as rparse

TARGET = None
if __name__ == "__main__":
    TARGET = sys.argv[1]
    del sys.argv[1]


def run(data: bytes):
    inp = io.BytesIO(data)
    try:
        if TARGET == "generic_flat":
            for _ in gparse.parse_jelly_flat(inp):
                pass
        elif TARGET == "generic_grouped":
            for s in gparse.parse_jelly_grouped(inp):
                len(s)
        elif TARGET == "rdflib_flat":
            for _ in rparse.parse_jelly_flat(inp):
                pass
        else:
            for s in rparse.parse_jelly_grouped(inp):
                len(s)
    except Exception:  # noqa: BLE001
        return


def mutate(data: bytes, max_size: int, seed: int) -> bytes:
    """Structure-aware mutation: decode frames/rows with my codec, change one thing, re-encode."""
    import random

    rnd = random.Random(seed)
    try:
        frames = wire.split_delimited(data)
        parts = [wire.split_frame_raw(f) for f in frames]
    except Exception:  # noqa: BLE001
        return atheris.Mutate(data, max_size)
    if not parts or rnd.random() < 0.3:
        return atheris.Mutate(data, max_size)
    fi = rnd.randrange(len(parts))
    rows, meta = parts[fi]
    rows = list(rows)
    op = rnd.randrange(6)
    if op == 0 and rows:
        del rows[rnd.randrange(len(rows))]
    elif op == 1 and rows:
        rows.insert(rnd.randrange(len(rows) + 1), rows[rnd.randrange(len(rows))])
    elif op == 2 and rows:
        i = rnd.randrange(len(rows))
        rows[i] = atheris.Mutate(bytes(rows[i]), max(len(rows[i]) + 8, 16))
    elif op == 3 and len(rows) > 1:
        k = rnd.randrange(1, len(rows))
        parts[fi] = (rows[:k], meta)
        parts.insert(fi + 1, (rows[k:], []))
        rows = None
    elif op == 4:
        parts.insert(fi, ([], []))
        rows = None
    elif op == 5 and rows:
        i, j = rnd.randrange(len(rows)), rnd.randrange(len(rows))
        rows[i], rows[j] = rows[j], rows[i]
    if rows is not None:
        parts[fi] = (rows, meta)
    out = wire.join_delimited([wire.build_frame_raw(r, m) for r, m in parts])
    return out[:max_size]


if __name__ == "__main__":
    atheris.Setup(sys.argv, run, custom_mutator=mutate)
    atheris.Fuzz()
