#!/venv/bin/python
"""atheris differential target (C04 / C16, thorough tier): bytes -> reference decoder R; valid => pyjelly must return R's
events; catalogued-invalid => pyjelly must raise at or before that row; anything R tags uncatalogued => nothing asserted."""
import os
import sys

HERE = os.path.dirname(os.path.dirname(os.path.abspath(__file__)))
sys.path.insert(0, HERE)
sys.path.append(os.path.join(HERE, ".deps"))
import atheris  # noqa: E402

from vlib import env  # noqa: E402,F401

with atheris.instrument_imports(include=["pyjelly"]):
    import pyjelly.integrations.generic.parse  # noqa: F401

from fuzz.fuzz_parse import mutate  # noqa: E402  (structure-aware mutator; needs argv[1] popped first)
from vlib import diffcheck  # noqa: E402

MODE = "both"
if __name__ == "__main__" and len(sys.argv) > 1 and sys.argv[1] in ("valid", "invalid", "both"):
    MODE = sys.argv[1]
    del sys.argv[1]
ASSERT_ON = ("valid", "invalid") if MODE == "both" else (MODE,)
STATS = {"valid": 0, "invalid": 0, "skip": 0, "execs": 0}
STATS_FILE = os.environ.get("FUZZ_STATS")


class DifferentialFailure(Exception):
    pass


def run(data: bytes):
    v, c = diffcheck.check_bytes(data, assert_on=ASSERT_ON)
    STATS[c[0]] += 1
    STATS["execs"] += 1
    if STATS_FILE and STATS["execs"] % 5000 == 0:
        import json

        with open(STATS_FILE, "w") as fh:
            json.dump(STATS, fh)
    if v is not None:
        raise DifferentialFailure(f"{v.signature}: {v.message}")


if __name__ == "__main__":
    atheris.Setup(sys.argv, run, custom_mutator=mutate)
    atheris.Fuzz()
