"""C05 - writer and reader lookup tables stay mirrored for all histories."""
from __future__ import annotations

from collections import OrderedDict, deque

from hypothesis import strategies as st

from vlib import env  # noqa: F401
from vlib.harness import Acc, Violation, hyp_search, shard_seed

ID = "C05"
LEVEL = "exploration"
RULE = (
    "(a) exhaustive joint-state closure on the REAL objects: a LookupEncoder(n) coupled to a LookupDecoder(n) exactly as "
    "TermEncoder / Decoder couple them, for the name rule, the prefix rule (with the empty prefix as a distinguished key) "
    "and the datatype rule; breadth-first over all histories, states canonicalised by key renaming (resident keys are "
    "identified by their index, all non-resident keys are interchangeable); successors = a hit on each resident key, one "
    "fresh key, and the empty prefix; the search stops when no new canonical state appears, i.e. the invariant is "
    "established for ALL histories at that size. (b) Hypothesis rule-based state machine through TermEncoder.encode_iri / "
    "encode_literal / encode_namespace_declaration - single terms and whole statements of 2..4 IRIs under one begin_statement(), "
    "where an under-sized table must be refused, never mis-encoded - feeding the rows into a real Decoder, names 8..32, prefixes and datatypes "
    "0..8, alphabets size+2. (c) long Hypothesis-drawn walks (up to 3000 uses) on sizes 150 / 4000 / 4096. (d) whole streams "
    "written with one table of 8/9, 4095, 4096, 4097 and 5000 slots and size+60 distinct keys: every entry slot on the wire "
    "lies within the size the stream's own options row declares (or the writer refuses the size). Oracle after "
    "every step: the decoded string equals the intended string, every emitted id lies in [0,size], live entries <= size on "
    "both sides, the reader slot of every resident key holds that key. non-trivial = transition out of an evicting state "
    "(a); history with an eviction followed by a hit and a zero form (b,c); distinct by canonical state / case hash."
)
ASSUMPTIONS = [
    "key-renaming symmetry: the tables only compare keys for equality and only the empty prefix is special, so closure "
    "under {hit each resident, one fresh key, empty prefix} covers every alphabet",
    "closure is claimed only for the sizes enumerated (quick: names 1..7, prefix 1..6, datatype 1..7; thorough: names and datatypes up to 8, prefix up to 7)",
]


# ------------------------------------------------------------------ (a) closure
def build(rule, size, st_):
    """Recreate real encoder/decoder objects from a canonical state."""
    from pyjelly.parse.lookup import LookupDecoder
    from pyjelly.serialize.lookup import LookupEncoder

    order, evicting, ela, elr, dslots, dla, dlr, empty_at = st_
    enc = LookupEncoder(lookup_size=size)
    data = OrderedDict()
    for idx in order:
        data["" if idx == empty_at else f"k{idx}"] = idx
    enc.lookup.data = data
    enc.lookup._evicting = evicting
    enc.last_assigned_index = ela
    enc.last_reused_index = elr
    dec = LookupDecoder(lookup_size=size)
    vals = []
    for j, lab in enumerate(dslots, start=1):
        if lab is None:
            vals.append(None)
        elif lab == "stale":
            vals.append("<stale>")
        else:
            vals.append("" if lab == empty_at else f"k{lab}")
    dec.data = deque(vals, maxlen=size)
    dec.last_assigned_index = dla
    dec.last_reused_index = dlr
    return enc, dec


def canon(enc, dec, size):
    items = list(enc.lookup.data.items())
    key_idx = dict(items)
    order = tuple(idx for _, idx in items)
    empty_at = key_idx.get("", 0)
    by_val = {k: i for k, i in items}
    dslots = []
    for v in dec.data:
        if v is None:
            dslots.append(None)
        elif v in by_val:
            dslots.append(by_val[v])
        else:
            dslots.append("stale")
    return (order, bool(enc.lookup._evicting), enc.last_assigned_index, enc.last_reused_index, tuple(dslots),
            dec.last_assigned_index, dec.last_reused_index, empty_at)


def use(rule, enc, dec, key, size):
    """One use of `key`, coupled like TermEncoder/Decoder. Returns error string or None."""
    e = enc.encode_entry_index(key)
    if e is not None:
        if not 0 <= e <= size:
            return f"entry id {e} outside [0,{size}]"
        dec.assign_entry(index=e, value=key)
    if rule == "name":
        idx = enc.encode_name_term_index(key)
    elif rule == "prefix":
        idx = enc.encode_prefix_term_index(key)
    else:
        idx = enc.encode_datatype_term_index(key)
    if not 0 <= idx <= size:
        return f"term id {idx} outside [0,{size}]"
    if rule == "name":
        got = dec.decode_name_term_index(idx)
    elif rule == "prefix":
        got = dec.decode_prefix_term_index(idx)
    else:
        got = dec.decode_datatype_term_index(idx)
    if got != key:
        return f"writer meant {key!r} (id {idx}), reader resolves {got!r}"
    if len(enc.lookup.data) > size:
        return f"{len(enc.lookup.data)} live entries in a writer table of size {size}"
    if sum(1 for v in dec.data if v is not None) > size:
        return "reader table over size"
    for k, i in enc.lookup.data.items():
        if dec.data[i - 1] != k:
            return f"reader slot {i} holds {dec.data[i - 1]!r}, writer has {k!r} there"
    return None


def closure(rule, size, limit=3_000_000):
    from pyjelly.parse.lookup import LookupDecoder
    from pyjelly.serialize.lookup import LookupEncoder

    enc, dec = LookupEncoder(lookup_size=size), LookupDecoder(lookup_size=size)
    start = canon(enc, dec, size)
    seen = {start: None}
    frontier = [start]
    transitions = 0
    evicting_out = 0
    while frontier:
        nxt = []
        for s in frontier:
            keys = [("" if idx == s[7] else f"k{idx}") for idx in s[0]]
            succ = keys + ["fresh"] + ([""] if rule == "prefix" and s[7] == 0 else [])
            for key in succ:
                enc, dec = build(rule, size, s)
                try:
                    err = use(rule, enc, dec, key, size)
                except Exception as exc:  # noqa: BLE001
                    err = f"{type(exc).__name__}: {exc}"
                transitions += 1
                if s[1]:
                    evicting_out += 1
                if err is not None:
                    # reconstruct the history
                    hist = [key]
                    cur = s
                    while seen[cur] is not None:
                        cur, k = seen[cur]
                        hist.append(k)
                    return {"error": err, "history": list(reversed(hist)), "states": len(seen), "transitions": transitions}
                # rename the fresh key by its index for the canonical form
                if key == "fresh":
                    idx = enc.lookup.data.pop("fresh")
                    # keep LRU position (it is last)
                    enc.lookup.data[f"k{idx}"] = idx
                    dec.data[idx - 1] = f"k{idx}"
                c = canon(enc, dec, size)
                if c not in seen:
                    seen[c] = (s, key)
                    nxt.append(c)
                    if len(seen) > limit:
                        return {"error": None, "states": len(seen), "transitions": transitions, "closed": False,
                                "evicting_out": evicting_out}
        frontier = nxt
    return {"error": None, "states": len(seen), "transitions": transitions, "closed": True, "evicting_out": evicting_out}


def replay_history(rule, size, history):
    from pyjelly.parse.lookup import LookupDecoder
    from pyjelly.serialize.lookup import LookupEncoder

    enc, dec = LookupEncoder(lookup_size=size), LookupDecoder(lookup_size=size)
    fresh = 0
    names = {}
    for step, key in enumerate(history):
        if key == "fresh":
            fresh += 1
            k = f"f{fresh}"
        elif key == "":
            k = ""
        else:
            # "k<idx>": the key currently at that index
            idx = int(key[1:])
            k = next((kk for kk, ii in enc.lookup.data.items() if ii == idx), key)
        try:
            err = use(rule, enc, dec, k, size)
        except Exception as exc:  # noqa: BLE001
            err = f"{type(exc).__name__}: {exc}"
        if err:
            return f"step {step} ({key}): {err}"
    return None


# ----------------------------------------------------------- (b) state machine
PFX = ["http://p%d/" % i for i in range(12)] + [""]
NAMES = ["n%d" % i for i in range(36)] + [""]
DTS = ["http://dt/%d" % i for i in range(12)]


class Recorder:
    pass


def make_codec(sizes):
    from pyjelly.options import LookupPreset, StreamParameters, StreamTypes
    from pyjelly.parse.decode import Adapter, Decoder, ParserOptions
    from pyjelly.serialize.encode import TermEncoder

    class A(Adapter):
        def iri(self, iri):
            return iri

        def bnode(self, bnode):
            return ("b", bnode)

        def default_graph(self):
            return ("default",)

        def literal(self, lex, language=None, datatype=None):
            return ("lit", lex, language, datatype)

        def namespace_declaration(self, name, iri):
            return ("ns", name, iri)

    preset = LookupPreset(max_names=sizes[0], max_prefixes=sizes[1], max_datatypes=sizes[2])
    enc = TermEncoder(lookup_preset=preset)
    opts = ParserOptions(stream_types=StreamTypes(physical_type=1, logical_type=1), lookup_preset=preset,
                         params=StreamParameters(namespace_declarations=True))
    dec = Decoder(adapter=A(opts))
    return enc, dec


def apply_op(enc, dec, op, sizes):
    """Run one op through the real TermEncoder -> rows -> real Decoder. Returns error or None; updates stats."""
    from pyjelly import jelly
    from pyjelly.serialize.encode import encode_namespace_declaration

    kind = op[0]
    stats = {}
    if kind == "iri":
        iri = PFX[op[1] % len(PFX)] + NAMES[op[2] % len(NAMES)]
        msg = jelly.RdfIri()
        enc.begin_statement()
        rows = enc.encode_iri(iri, msg)
        for r in rows:
            dec.decode_row(getattr(r, r.WhichOneof("row")))
        got = dec.decode_iri(msg)
        ids = [msg.prefix_id, msg.name_id]
        if got != iri:
            return f"IRI {iri!r} resolves to {got!r}", stats
        if not (0 <= msg.prefix_id <= sizes[1] and 0 <= msg.name_id <= sizes[0]):
            return f"ids {ids} outside tables {sizes}", stats
        stats["zero"] = msg.prefix_id == 0 or msg.name_id == 0
        stats["entries"] = len(rows)
    elif kind == "lit":
        dt = DTS[op[1] % len(DTS)]
        msg = jelly.RdfLiteral()
        enc.begin_statement()
        rows = enc.encode_literal(lex="x", datatype=dt, literal=msg)
        for r in rows:
            dec.decode_row(getattr(r, r.WhichOneof("row")))
        got = dec.decode_literal(msg)
        if got != ("lit", "x", None, dt):
            return f"datatype {dt!r} resolves to {got!r}", stats
        if not 0 < msg.datatype <= sizes[2]:
            return f"datatype id {msg.datatype} outside (0,{sizes[2]}]", stats
        stats["entries"] = len(rows)
    elif kind == "stmt":
        # several IRIs under ONE begin_statement(): the writer must either refuse (table too small for the statement)
        # or put ids on the wire that resolve to what it meant
        from pyjelly.errors import JellyConformanceError

        iris = [PFX[a % len(PFX)] + NAMES[b % len(NAMES)] for a, b in op[1]]
        msgs = [jelly.RdfIri() for _ in iris]
        enc.begin_statement()
        rows = []
        try:
            for iri, msg in zip(iris, msgs):
                rows.extend(enc.encode_iri(iri, msg))
        except JellyConformanceError:
            stats["refused"] = True
            return None, stats
        for r in rows:
            dec.decode_row(getattr(r, r.WhichOneof("row")))
        for iri, msg in zip(iris, msgs):
            got = dec.decode_iri(msg)
            if got != iri:
                return f"statement {iris!r}: {iri!r} resolves to {got!r}", stats
        stats["entries"] = len(rows)
    else:
        iri = PFX[op[1] % len(PFX)] + NAMES[op[2] % len(NAMES)]
        rows = encode_namespace_declaration("p", iri, enc)
        out = None
        for r in rows:
            out = dec.decode_row(getattr(r, r.WhichOneof("row")))
        if out != ("ns", "p", iri):
            return f"namespace {iri!r} resolves to {out!r}", stats
        stats["entries"] = len(rows) - 1
    for name, size in (("names", sizes[0]), ("prefixes", sizes[1]), ("datatypes", sizes[2])):
        e = getattr(enc, name)
        d = getattr(dec, name)
        if len(e.lookup.data) > size or sum(1 for v in d.data if v is not None) > size:
            return f"{name}: live entries exceed size {size}", stats
        for k, i in e.lookup.data.items():
            if d.data[i - 1] != k:
                return f"{name}: reader slot {i} holds {d.data[i - 1]!r}, writer has {k!r}", stats
    return None, stats


def run_ops(case, acc=None):
    sizes = case["sizes"]
    enc, dec = make_codec(sizes)
    evicted = hit_after = zero_after = False
    for i, op in enumerate(case["ops"]):
        if op[0] == "lit" and sizes[2] == 0:
            continue
        full = [len(enc.names.lookup.data) >= sizes[0], sizes[1] and len(enc.prefixes.lookup.data) >= sizes[1]]
        try:
            err, stats = apply_op(enc, dec, op, sizes)
        except Exception as exc:  # noqa: BLE001
            err, stats = f"{type(exc).__name__}: {exc}", {}
        if err:
            return Violation("C05:tables-out-of-sync:" + op[0], f"step {i} {op!r}, tables {sizes}: {err}", case)
        if stats.get("refused"):
            enc, dec = make_codec(sizes)  # a refused statement closes the stream: continue with a fresh pair
            continue
        if stats.get("entries") and any(full):
            evicted = True
        elif evicted and not stats.get("entries"):
            hit_after = True
            if stats.get("zero"):
                zero_after = True
    if acc is not None:
        acc.case(case, evicted and hit_after and zero_after, ["machine" if case.get("kind") == "machine" else "walk"]
                 + (["eviction"] if evicted else []) + (["hit_after_eviction"] if hit_after else []))
    return None


def machine_shard(spec, acc):
    """Hypothesis RuleBasedStateMachine; the history is recorded so that a failure becomes a plain replay case."""
    import hypothesis
    from hypothesis import HealthCheck, Phase, settings
    from hypothesis.stateful import RuleBasedStateMachine, initialize, invariant, rule, run_state_machine_as_test

    found = {}
    known = set(spec["known"])

    class Tables(RuleBasedStateMachine):
        def __init__(self):
            super().__init__()
            self.sizes = None
            self.ops = []
            self.err = None

        @initialize(n=st.sampled_from([8, 9, 12, 16, 32]), p=st.sampled_from([0, 1, 1, 2, 2, 3, 4, 5, 8]), d=st.integers(0, 8))
        def setup(self, n, p, d):
            self.sizes = [n, p, d]
            self.enc, self.dec = make_codec(self.sizes)
            self.alpha = (n + 2, max(p, 1) + 2, max(d, 1) + 2)

        def _do(self, op):
            self.ops.append(list(op))
            st_ = {}
            try:
                err, st_ = apply_op(self.enc, self.dec, op, self.sizes)
            except Exception as exc:  # noqa: BLE001
                err = f"{type(exc).__name__}: {exc}"
            if st_.get("refused"):
                self.enc, self.dec = make_codec(self.sizes)
            if err:
                case = {"kind": "machine", "sizes": self.sizes, "ops": list(self.ops)}
                v = Violation("C05:tables-out-of-sync:" + op[0], f"step {len(self.ops) - 1} {op!r}, tables {self.sizes}: {err}", case)
                if v.signature not in known:
                    found["v"] = v
                    raise v

        @rule(p=st.integers(0, 12), n=st.integers(0, 36))
        def iri(self, p, n):
            self._do(("iri", p % self.alpha[1] if p != 12 else 12, n % self.alpha[0] if n != 36 else 36))

        @rule(terms=st.lists(st.tuples(st.integers(0, 12), st.integers(0, 36)), min_size=2, max_size=4))
        def statement(self, terms):
            self._do(("stmt", [[p % self.alpha[1] if p != 12 else 12, n % self.alpha[0] if n != 36 else 36] for p, n in terms]))

        @rule(d=st.integers(0, 11))
        def literal(self, d):
            if self.sizes[2]:
                self._do(("lit", d % self.alpha[2]))

        @rule(p=st.integers(0, 12), n=st.integers(0, 36))
        def namespace(self, p, n):
            self._do(("ns", p % self.alpha[1] if p != 12 else 12, n % self.alpha[0] if n != 36 else 36))

        @invariant()
        def bounded(self):
            if self.sizes is None:
                return
            assert len(self.enc.names.lookup.data) <= self.sizes[0]

        def teardown(self):
            if self.sizes is not None and self.ops:
                acc.evaluations += 1
                acc.counters["machine_histories"] += 1
                acc.counters["machine_steps"] += len(self.ops)

    sett = settings(max_examples=spec["n"], stateful_step_count=spec.get("steps", 60), deadline=None, database=None,
                    report_multiple_bugs=False, print_blob=False, phases=(Phase.generate, Phase.shrink),
                    suppress_health_check=list(HealthCheck))
    machine = hypothesis.seed(shard_seed(spec["seed"], spec["shard"], "machine"))(Tables)
    try:
        run_state_machine_as_test(machine, settings=sett)
    except Violation:
        pass
    except BaseException:
        if "v" not in found:
            raise
    if "v" in found:
        acc.violations.append(found["v"].to_json())


@st.composite
def walk_case(draw):
    size = draw(st.sampled_from([150, 4000, 4096]))
    n = draw(st.integers(200, 3000))
    # keys concentrated around the table size so that evictions and hits both happen
    ops = draw(st.lists(st.tuples(st.just("iri"), st.integers(0, 12), st.integers(0, 36)), min_size=1, max_size=40))
    return {"kind": "longwalk", "size": size, "n": n, "seed_ops": [list(o) for o in ops],
            "stride": draw(st.integers(1, 97)), "span": draw(st.sampled_from([10, 200, 5000]))}


def run_longwalk(case, acc=None):
    """Deterministic long walk derived from the drawn parameters, on the coupled LookupEncoder/LookupDecoder."""
    from pyjelly.parse.lookup import LookupDecoder
    from pyjelly.serialize.lookup import LookupEncoder

    size = case["size"]
    viol = None
    for rule in ("name", "prefix", "datatype"):
        enc, dec = LookupEncoder(lookup_size=size), LookupDecoder(lookup_size=size)
        x = 1
        evicted = False
        for i in range(case["n"]):
            x = (x * 1103515245 + 12345 + case["stride"]) % (2 ** 31)
            base = (i // 3) if i % 3 else x
            k = (base % (size + case["span"]))
            key = "" if (rule == "prefix" and k % 41 == 0) else f"key{k}"
            if len(enc.lookup.data) >= size:
                evicted = True
            try:
                err = use(rule, enc, dec, key, size)
            except Exception as exc:  # noqa: BLE001
                err = f"{type(exc).__name__}: {exc}"
            if err:
                viol = Violation(f"C05:tables-out-of-sync:{rule}", f"size {size}, step {i}: {err}", case)
                break
        if viol:
            break
    if acc is not None:
        acc.case(case, True, ["longwalk_size_%d" % size])
    return viol


def declared_cases():
    """Whole streams: the table sizes the header DECLARES against the ids the writer then uses, at and beyond the format's
    maximum (4096) as well - what the reader sizes its tables by is the header."""
    out = []
    for which in (0, 1, 2):
        for size in (8, 9, 4095, 4096, 4097, 5000):
            if which != 0 and size in (8, 9):
                size -= 6
            out.append({"kind": "declared", "table": which, "size": size, "extra": 60})
    return out


def run_declared(case, acc=None):
    from pyjelly.integrations.generic.generic_sink import IRI, Literal, Triple
    from pyjelly.integrations.generic.serialize import flat_stream_to_frames
    from pyjelly.options import LookupPreset
    from pyjelly.serialize.streams import SerializerOptions

    from vlib import wire

    which, size = case["table"], case["size"]
    sizes = [16, 8, 8]
    sizes[which] = size
    n = size + case["extra"]
    keys = list(range(n)) + list(range(0, n, 7))  # everything once (forces evictions), then revisits

    def stmts():
        for k in keys:
            if which == 0:
                yield Triple(IRI("http://ex.org/n%d" % k), IRI("http://ex.org/p"), Literal("v"))
            elif which == 1:
                yield Triple(IRI("http://ns%d.example/x" % k), IRI("http://ex.org/p"), Literal("v"))
            else:
                yield Triple(IRI("http://ex.org/s"), IRI("http://ex.org/p"), Literal("v", None, "http://dt.example/t%d" % k))

    try:
        opts = SerializerOptions(logical_type=1, lookup_preset=LookupPreset(max_names=sizes[0], max_prefixes=sizes[1],
                                                                            max_datatypes=sizes[2]), frame_size=250)
        frames = [f.SerializeToString() for f in flat_stream_to_frames(stmts(), opts)]
    except Exception as exc:  # noqa: BLE001
        if acc is not None:
            acc.case(case, False, ["declared_refused_by_writer"])
        return None  # a writer that refuses a table size it cannot honour is fine
    declared = None
    live = [set(), set(), set()]
    last = [0, 0, 0]
    names = ("name", "prefix", "datatype")
    for fi, fb in enumerate(frames):
        for ri, rb in enumerate(wire.split_frame_raw(fb)[0]):
            row = wire.dec_row(rb)
            if row[0] == "options":
                declared = [row[1].get("max_name_table_size", 0), row[1].get("max_prefix_table_size", 0),
                            row[1].get("max_datatype_table_size", 0)]
                continue
            if declared is None:
                return Violation("C05:declared:no-options-row", "statement or entry rows before any options row", case)
            if row[0] in names:
                t = names.index(row[0])
                slot = row[1] or last[t] + 1
                last[t] = slot
                live[t].add(slot)
                if not 1 <= slot <= declared[t]:
                    return Violation(f"C05:declared:{row[0]}-entry-outside-declared-table", f"frame {fi} row {ri}: {row[0]} entry "
                                     f"assigned to slot {slot}; the header declares {declared[t]} (writer was given {sizes[t]})", case)
    if acc is not None:
        acc.case(case, size >= 4095, ["declared_table_%s_%d" % (names[which], size)])
    if declared is None:
        return Violation("C05:declared:no-options-row", "no options row written", case)
    for t in range(3):
        if len(live[t]) > declared[t]:
            return Violation(f"C05:declared:{names[t]}-live-entries-exceed-declared", f"{len(live[t])} slots in use, header declares {declared[t]}", case)
    return None


def body(case, acc):
    if case["kind"] == "declared":
        return run_declared(case, acc)
    if case["kind"] == "closure":
        err = replay_history(case["rule"], case["size"], case["history"])
        return Violation(f"C05:closure:{case['rule']}", err, case) if err else None
    if case["kind"] == "longwalk":
        return run_longwalk(case, acc)
    return run_ops(case, acc)


def check_case(case):
    return body(case, None)


def run_shard(spec) -> Acc:
    acc = Acc()
    known = set(spec["known"])
    if spec["part"] == "closure":
        r = closure(spec["rule"], spec["size"])
        acc.evaluations += r["transitions"]
        acc.extra["states"] = r["states"]
        acc.extra["transitions"] = r["transitions"]
        acc.counters[f"closure_{spec['rule']}_{spec['size']}_states"] = r["states"]
        if r["error"]:
            case = {"kind": "closure", "rule": spec["rule"], "size": spec["size"], "history": r["history"]}
            v = Violation(f"C05:closure:{spec['rule']}", f"size {spec['size']} after {r['history']!r}: {r['error']}", case)
            if v.signature not in known:
                acc.violations.append(v.to_json())
            return acc
        if not r.get("closed"):
            acc.extra["closure_incomplete"] = 1
        # distinct non-trivial = transitions out of evicting states (each from a distinct canonical state/key pair)
        for i in range(min(r["evicting_out"], 50000)):
            acc.nontrivial.add(f"{spec['rule']}:{spec['size']}:{i}")
        acc.samples.append({"kind": "closure", "rule": spec["rule"], "size": spec["size"], "states": r["states"],
                            "transitions": r["transitions"], "closed": r.get("closed")})
        acc.extra["exhaustive"] = bool(r.get("closed"))
        return acc
    if spec["part"] == "machine":
        machine_shard(spec, acc)
        return acc
    if spec["part"] == "declared":
        for case in declared_cases():
            v = run_declared(case, acc)
            if v is not None and v.signature not in known:
                acc.violations.append(v.to_json())
                break
        return acc
    hyp_search(walk_case(), body, acc, seed=spec["seed"] * 1000 + spec["shard"], max_examples=spec["n"], known=known)
    return acc


def plan(tier, seed):
    q = tier == "quick"
    specs = []
    top = {"name": 7, "prefix": 6, "datatype": 7} if q else {"name": 8, "prefix": 7, "datatype": 8}
    for rule, mx in top.items():
        for size in range(mx, 0, -1):
            specs.append({"part": "closure", "rule": rule, "size": size})
    for i in range(4 if q else 8):
        specs.append({"part": "machine", "shard": i, "n": 60 if q else 2000, "steps": 60 if q else 300})
    for i in range(2 if q else 6):
        specs.append({"part": "walk", "shard": 40 + i, "n": 10 if q else 150})
    specs.append({"part": "declared", "shard": 90})
    return specs
