"""C16 - spec-violating streams are rejected, never turned into fabricated data."""
from __future__ import annotations

from vlib import env  # noqa: F401
from vlib import inject, jellyenc, jellyref, pyj, scen, wire
from vlib import terms as T
from vlib.env import HarnessError
from vlib.harness import Acc, Violation, hyp_search

ID = "C16"
LEVEL = "fault_enumeration"
RULE = (
    "Hypothesis draws valid streams from the reference encoder E (all physical types, tables down to 0 / 8, arbitrary "
    "producer choices); for each stream EVERY row position x EVERY applicable class of the catalogue (vlib/inject.py) is "
    "enumerated, one violation at a time: entry id > size / 2^32-1, name/prefix/datatype reference > size, reference to a "
    "never-filled slot (also via the zero forms), datatype id 0, datatype reference or entry with the datatype table "
    "disabled, prefix reference / entry with the prefix table disabled, elided term in the first statement, elided term "
    "inside a quoted triple, missing options row, quad row in TRIPLES, triple row in QUADS, graph rows in TRIPLES/QUADS, quad "
    "row in GRAPHS, triple outside any graph in GRAPHS, version 3+, physical type unspecified / unknown, name table < 8, "
    "table > 4096. A mutated stream is used only if the reference decoder R rejects it with the intended kind at the "
    "intended row. Oracle: parse_jelly_flat and parse_jelly_grouped (generic; rdflib for RDF 1.1 content) raise an "
    "Exception and everything yielded before it is a prefix of the events denoted by the rows before the offending one. "
    "Plus an atheris coverage-guided differential campaign: any bytes R rejects with a catalogued kind must make "
    "parse_jelly_flat raise without having yielded anything the earlier rows do not denote. "
    "non-trivial = violation placed after >=1 valid statement; distinct by (stream hash, class, position)."
)
ASSUMPTIONS = [
    "the exception type is not constrained (IndexError / KeyError / AssertionError / TypeError all count as 'raise')",
    "anomalies outside the catalogue (graph end without start, nested graph start, unknown fields) are not asserted",
    "assert-based checks in pyjelly are active (the checks run without python -O)",
]


def norm_events(evs):
    out = []
    for e in evs:
        if e[0] == "prefix":
            out.append(["prefix", e[1], list(e[2])])
        elif e[0] == "BAD":
            out.append(e)
        else:
            out.append([list(T.norm(t)) if t[0] != "BAD" else t for t in e])
    return out


def run_parsers(data, case, allowed_events, label, pos, expected_kind):
    """Return Violation or None."""
    integrations = ["generic"] + (["rdflib"] if case["mode"] == "rdflib" else [])
    for integ in integrations:
        if integ == "generic":
            allowed = norm_events(allowed_events)
        else:
            allowed = norm_events(allowed_events)
        items, exc = pyj.parse_flat_partial(data, integ)
        items = norm_events(items)
        if exc is None:
            return Violation(f"C16:accepted:{label}", f"{integ} parse_jelly_flat accepted a stream with '{expected_kind}' at "
                             f"frame {pos[0]} row {pos[1]} and returned {len(items)} items, e.g. {items[len(allowed):len(allowed) + 1]!r}",
                             None)
        if items != allowed[:len(items)]:
            return Violation(f"C16:fabricated-before-raise:{label}", f"{integ} parse_jelly_flat yielded {items[-1:]!r} which the "
                             f"rows before the violation do not denote, then raised {exc!r}", None)
        # grouped
        got = []
        gexc = None
        try:
            m = pyj._parse_mod(integ)
            import io as _io

            for sink in m.parse_jelly_grouped(_io.BytesIO(data)):
                got.extend(pyj.sink_events(sink, integ))
        except Exception as e:  # noqa: BLE001
            gexc = e
        if gexc is None:
            return Violation(f"C16:accepted:{label}", f"{integ} parse_jelly_grouped accepted a stream with '{expected_kind}' "
                             f"at frame {pos[0]} row {pos[1]}", None)
        allowed_stmts = [e for e in allowed if e[0] != "prefix"]
        if integ == "generic":
            g = norm_events(got)
            if g != allowed_stmts[:len(g)]:
                return Violation(f"C16:fabricated-before-raise:{label}", f"{integ} parse_jelly_grouped delivered a sink with "
                                 f"statements the valid rows do not denote", None)
        else:
            gs = {T.norm_stmt(s) for s in got}
            al = {tuple(tuple(t) for t in s) for s in allowed_stmts}
            if not gs <= al:
                return Violation(f"C16:fabricated-before-raise:{label}", f"{integ} parse_jelly_grouped delivered statements "
                                 f"the valid rows do not denote: {sorted(gs - al, key=repr)[:1]!r}", None)
    return None


def body(case, acc):
    only = case.get("mutation")
    try:
        out = jellyenc.encode_case(case)
    except jellyenc.CannotEncode as exc:
        raise HarnessError(f"unencodable case: {exc}") from exc
    frames, delimited = out["frames"], out["delimited"]
    base = jellyref.decode(out["bytes"], delimited, "strict")
    if base.error is not None:
        raise HarnessError(f"E produced an invalid stream: {base.error}")
    n_stmts_before = {}
    count = 0
    for fi, f in enumerate(frames):
        for ri, r in enumerate(f["rows"]):
            n_stmts_before[(fi, ri)] = count
            if r[0] in ("triple", "quad"):
                count += 1
    k = 0
    for label, exp_kind, mframes, pos in inject.mutations(frames, out["options"]):
        k += 1
        ident = f"{label}@{pos[0]}.{pos[1]}"
        if only is not None and only != ident:
            continue
        data = wire.enc_stream(mframes, delimited)
        res = jellyref.decode(data, delimited, "strict")
        if res.error is None or res.error.kind != exp_kind or (res.error.frame, res.error.row) != tuple(pos):
            if acc is not None:
                acc.count("mutation_not_confirmed_by_R")
            continue
        if acc is not None:
            after = n_stmts_before.get(tuple(pos), count) >= 1
            sub = {"stream": scen_hash(case), "mutation": ident}
            acc.case(sub, after, ["class_" + label, "kind_" + exp_kind])
        v = run_parsers(data, case, res.events, label, pos, exp_kind)
        if v is not None:
            v.case = {**{k2: v2 for k2, v2 in case.items() if k2 != "mutation"}, "mutation": ident}
            return v
    return None


def scen_hash(case):
    from vlib.harness import case_hash

    return case_hash({k: v for k, v in case.items() if k != "mutation"})


def check_case(case):
    if case.get("kind") == "bytes":
        from vlib import diffcheck

        v, _ = diffcheck.check_bytes(bytes.fromhex(case["hex"]), assert_on=("invalid",))
        return v
    return body(case, None)


def run_shard(spec) -> Acc:
    acc = Acc()
    acc.MAX_SAMPLES = 2
    if spec.get("part") == "atheris_diff":
        from vlib import diffcheck

        diffcheck.run_campaign(spec, acc, "C16:", "invalid")
        return acc
    hyp_search(scen.e_case(max_len=spec.get("max_len", 8), with_namespaces=True), body, acc,
               seed=spec["seed"] * 1000 + spec["shard"], max_examples=spec["n"], known=set(spec["known"]))
    return acc


def plan(tier, seed):
    n = 40 if tier == "quick" else 700
    specs = [{"shard": i, "n": n, "max_len": 8 if tier == "quick" else 14} for i in range(14)]
    runs = 20000 if tier == "quick" else 2500000
    specs += [{"part": "atheris_diff", "shard": 200 + i, "runs": runs, "wall": 200 if tier == "quick" else 1500} for i in range(2)]
    return specs
