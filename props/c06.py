"""C06 - no accepted serializer configuration silently drops statements."""
from __future__ import annotations

import io
import itertools

from vlib import env  # noqa: F401
from vlib import gen, jellyref, pyj, scen
from vlib import terms as T
from vlib.harness import Acc, Violation, draw_examples

ID = "C06"
LEVEL = "exploration"
RULE = (
    "Exhaustive enumeration of the configuration lattice, not sampled: stream class {Triple, Quad, Graph} (where the entry "
    "point lets the caller choose it) x all 8 LogicalStreamType values x delimited {T,F} x frame_size {1,3,250} x flow "
    "{inferred, ManualFrameFlow, BoundedFrameFlow, FlatTriples-, FlatQuads-, Graphs-, DatasetsFrameFlow; each with its "
    "default and with the options' logical type} x entry point {generic: stream_frames from generator / sink, "
    "flat_stream_to_file, grouped_stream_to_file, sink.serialize; rdflib: Graph/Dataset.serialize with options, with an "
    "explicit stream, stream_frames, flat_stream_to_file (also with nothing but the statements, as Triple / Quad objects or plain tuples), grouped_stream_to_file} x Hypothesis-generated non-empty inputs "
    "of the matching arity (lengths 1, 2, frame_size+-1, longer) plus two fixed shapes (a consecutive duplicate; one triple "
    "in two graphs back to back); plus, for the entry points that take an options object with an inferred flow, the same "
    "lattice with that ONE options object already used by an earlier call (completed, or aborted mid-encoding by an "
    "unsupported term), and with a raw output stream that takes at most 7 bytes per write() and says so. Oracle: the combination raises (at construction or at "
    "the call), or the bytes written decode - by the reference decoder and by pyjelly's own flat parser - to the input "
    "and no captured stream has rows left in its flow when the call returns. "
    "non-trivial = accepted configuration that is not the default (non-delimited, grouped or unspecified logical type, "
    "explicit flow, or frame_size below the number of rows); distinct by (lattice point, input hash)."
)
ASSUMPTIONS = [
    "frames from stream_frames are written with the writer matching params.delimited, as the rdflib serializer does",
    "documented quirk: a base logical type GRAPHS with quad data uses a TripleStream; checked on the (s,p,o) projection",
    "rdflib containers: set semantics; statement generators: sequence semantics",
    "a stream class for quads fed triples must raise, or write the triples as default-graph content; a TripleStream fed "
    "quad tuples outside the documented Dataset case is not judged",
]

FLOWS = [None, "ManualFrameFlow", "ManualFrameFlow:lt", "BoundedFrameFlow", "BoundedFrameFlow:lt",
         "FlatTriplesFrameFlow", "FlatTriplesFrameFlow:lt", "FlatQuadsFrameFlow", "FlatQuadsFrameFlow:lt",
         "GraphsFrameFlow", "GraphsFrameFlow:lt", "DatasetsFrameFlow", "DatasetsFrameFlow:lt"]
FRAME_SIZES = [1, 3, 250]
CLASSES = ["TRIPLES", "QUADS", "GRAPHS"]


def lattice():
    pts = []
    for logical, delimited, fs, flow in itertools.product(pyj.LOGICALS, (True, False), FRAME_SIZES, FLOWS):
        base = {"logical": logical, "delimited": delimited, "frame_size": fs, "flow": flow}
        for phys in CLASSES:
            for form in ("generator", "sink"):
                pts.append({**base, "entry": "generic.stream_frames", "phys": phys, "form": form})
            pts.append({**base, "entry": "rdflib.stream_frames", "phys": phys, "form": "container"})
            pts.append({**base, "entry": "rdflib.stream_frames", "phys": phys, "form": "generator"})
            pts.append({**base, "entry": "rdflib.serialize_stream", "phys": phys, "form": "container"})
        for arity in (3, 4):
            pts.append({**base, "entry": "generic.flat_stream_to_file", "arity": arity})
            pts.append({**base, "entry": "generic.grouped_stream_to_file", "arity": arity})
            pts.append({**base, "entry": "rdflib.flat_stream_to_file", "arity": arity})
            pts.append({**base, "entry": "rdflib.grouped_stream_to_file", "arity": arity})
            pts.append({**base, "entry": "rdflib.serialize_options", "arity": arity})
    for arity in (3, 4):
        pts.append({"entry": "generic.sink_serialize", "arity": arity, "logical": None, "delimited": True,
                    "frame_size": None, "flow": None})
    for arity in (3, 4):
        for plain in (False, True):
            pts.append({"entry": "rdflib.flat_default", "arity": arity, "logical": None, "delimited": True, "frame_size": None,
                        "flow": None, "plain_tuples": plain})
        pts.append({"entry": "generic.flat_default", "arity": arity, "logical": None, "delimited": True, "frame_size": None,
                    "flow": None, "plain_tuples": False})
    # the same lattice with namespace declarations switched on, for the entry points that take a sink / container
    # carrying bindings (declaration rows count towards frames and share the lookup tables)
    with_ns = []
    for pt in pts:
        if pt.get("form") in ("sink", "container") or pt["entry"] in (
                "generic.grouped_stream_to_file", "rdflib.grouped_stream_to_file", "rdflib.serialize_options", "rdflib.serialize_stream"):
            if pt["flow"] in (None, "BoundedFrameFlow:lt", "ManualFrameFlow:lt", "GraphsFrameFlow:lt", "DatasetsFrameFlow:lt"):
                with_ns.append({**pt, "ns": True})
    # one SerializerOptions object used for two calls (flow inferred): the first call either completes or is aborted in the
    # middle of encoding by a term the encoder does not support; the second call is the one that is checked
    reuse = []
    for pt in pts:
        if pt["flow"] is None and pt["entry"].split(".")[1] in ("flat_stream_to_file", "grouped_stream_to_file", "serialize_options"):
            reuse.append({**pt, "reuse": "after_failure"})
            reuse.append({**pt, "reuse": "after_success"})
    # the caller's output stream is a raw, unbuffered one that takes only part of what it is handed (RawIOBase.write may
    # do that and says so in its return value): the call must raise, or everything must have arrived
    short = []
    for pt in pts:
        if pt["flow"] is None and pt["entry"].split(".")[1] in ("flat_stream_to_file", "grouped_stream_to_file", "serialize_options",
                                                                  "sink_serialize"):
            short.append({**pt, "sink": "short_write"})
    return pts + with_ns + reuse + short


BINDINGS = [["ex", "http://ex.org/"], ["", "http://ex.org/ns2/"], ["dt", "http://dt.org/"]]


def cfg_of(pt, phys):
    integ = pt["entry"].split(".")[0]
    return {"phys": phys, "logical": pt["logical"], "delimited": pt["delimited"], "frame_size": pt["frame_size"],
            "flow": pt["flow"], "preset": [16, 8, 8],
            "params": {"generalized": integ == "generic", "rdf_star": integ == "generic", "stream_name": "",
                       "namespace_declarations": bool(pt.get("ns"))}}


def bound(pt, obj, integ):
    """Attach the fixed bindings to a sink / container when the point asks for namespace declarations."""
    if not pt.get("ns"):
        return obj
    if integ == "generic":
        from pyjelly.integrations.generic.generic_sink import IRI

        for p_, ns in BINDINGS:
            obj.bind(p_, IRI(ns))
    else:
        import rdflib

        for p_, ns in BINDINGS:
            obj.bind(p_, rdflib.URIRef(ns))
    return obj


class ShortWriteRaw(io.RawIOBase):
    """A raw output stream that accepts at most `k` bytes per write() and reports how many it took."""

    def __init__(self, k=7):
        super().__init__()
        self.k = k
        self.got = bytearray()
        self.short_writes = 0

    def writable(self):
        return True

    def write(self, b):
        n = min(len(b), self.k)
        if n < len(b):
            self.short_writes += 1
        self.got += bytes(b[:n])
        return n

    def getvalue(self):
        return bytes(self.got)


def out_stream(pt):
    return ShortWriteRaw() if pt.get("sink") == "short_write" else io.BytesIO()


def earlier_call(pt, stmts, integ, name, opts):
    """The history of a reused options object: one earlier call with the same object, aborted or completed."""
    native = pyj.conv_stmts(stmts[:2], integ)
    if pt["reuse"] == "after_failure":
        if integ == "generic":
            bad = type(native[0])(*native[0][:2], 12345, *native[0][3:])  # an int is not a term
        else:
            import rdflib

            bad = type(native[0])(*native[0][:2], rdflib.Variable("v"), *native[0][3:])
        native = native[:1] + [bad]
    arity = len(stmts[0])
    buf = io.BytesIO()
    if integ == "generic":
        from pyjelly.integrations.generic import serialize as ser
        from pyjelly.integrations.generic.generic_sink import GenericStatementSink
    else:
        from pyjelly.integrations.rdflib import serialize as ser
    try:
        if name == "flat_stream_to_file":
            ser.flat_stream_to_file((x for x in native), buf, options=opts)
        else:
            if integ == "generic":
                cont = GenericStatementSink()
                for x in native:
                    cont.add(x)
            else:
                import rdflib

                cont = rdflib.Graph() if arity == 3 else rdflib.Dataset()
                for x in native:
                    cont.add(tuple(x))
            if name == "grouped_stream_to_file":
                ser.grouped_stream_to_file((x for x in [cont]), buf, options=opts)
            else:
                cont.serialize(format="jelly", encoding="jelly", options=opts)
    except Exception:  # noqa: BLE001
        return "raised"
    return "completed"


def execute(pt, stmts):
    """-> ("raised", exc) | ("ok", bytes, delimited_writer, streams, projection)"""
    from vlib.props_util import Capture

    entry = pt["entry"]
    integ, name = entry.split(".")
    arity = len(stmts[0])
    projection = False
    with Capture() as cap:
        try:
            if name == "stream_frames":
                cfg = cfg_of(pt, pt["phys"])
                stream = pyj.make_stream(cfg, integ)
                if integ == "generic":
                    from pyjelly.integrations.generic.serialize import stream_frames

                    data = bound(pt, pyj.generic_sink(stmts), "generic") if pt["form"] == "sink" else (s for s in pyj.conv_stmts(stmts, "generic"))
                else:
                    from pyjelly.integrations.rdflib.serialize import stream_frames

                    if pt["form"] == "container":
                        data = bound(pt, scen.rdflib_container(stmts, "TRIPLES" if arity == 3 else "QUADS"), "rdflib")
                    else:
                        data = (s for s in pyj.conv_stmts(stmts, "rdflib"))
                out = pyj.frames_to_bytes(stream_frames(stream, data), pt["delimited"])
                return ("ok", out, pt["delimited"], cap.streams, projection)
            if name == "serialize_stream":
                cfg = cfg_of(pt, pt["phys"])
                stream = pyj.make_stream(cfg, "rdflib")
                g = bound(pt, scen.rdflib_container(stmts, "TRIPLES" if arity == 3 else "QUADS"), "rdflib")
                out = g.serialize(format="jelly", encoding="jelly", stream=stream, options=stream.options)
                return ("ok", out, pt["delimited"], cap.streams, projection)
            if name == "serialize_options":
                cfg = cfg_of(pt, "TRIPLES")
                g = bound(pt, scen.rdflib_container(stmts, "TRIPLES" if arity == 3 else "QUADS"), "rdflib")
                opts = pyj.make_options(cfg)
                if pt.get("reuse"):
                    earlier_call(pt, stmts, integ, name, opts)
                    cap.streams.clear()
                if pt.get("sink"):
                    dest = out_stream(pt)
                    g.serialize(destination=dest, format="jelly", options=opts)
                    return ("ok", dest.getvalue(), pt["delimited"], cap.streams, projection)
                out = g.serialize(format="jelly", encoding="jelly", options=opts)
                return ("ok", out, pt["delimited"], cap.streams, projection)
            buf = out_stream(pt)
            if name == "flat_default":
                # nothing but the statements: stream class, logical type and tables are guessed from the first statement;
                # rdflib users hand over plain tuples as well (Graph.triples() / Dataset.quads() yield those)
                if integ == "generic":
                    from pyjelly.integrations.generic import serialize as ser
                else:
                    from pyjelly.integrations.rdflib import serialize as ser
                native = pyj.conv_stmts(stmts, integ)
                if pt.get("plain_tuples"):
                    native = [tuple(x) for x in native]
                ser.flat_stream_to_file((x for x in native), buf)
                return ("ok", buf.getvalue(), True, cap.streams, projection)
            if name == "sink_serialize":
                pyj.generic_sink(stmts).serialize(buf)
                return ("ok", buf.getvalue(), True, cap.streams, projection)
            cfg = cfg_of(pt, "TRIPLES")
            opts = pyj.make_options(cfg)
            if pt.get("reuse"):
                earlier_call(pt, stmts, integ, name, opts)
                cap.streams.clear()
            if integ == "generic":
                from pyjelly.integrations.generic import serialize as ser
            else:
                from pyjelly.integrations.rdflib import serialize as ser
            if name == "flat_stream_to_file":
                ser.flat_stream_to_file((s for s in pyj.conv_stmts(stmts, integ)), buf, options=opts)
            elif name == "grouped_stream_to_file":
                if integ == "generic":
                    ser.grouped_stream_to_file((x for x in [bound(pt, pyj.generic_sink(stmts), "generic")]), buf, options=opts)
                else:
                    ser.grouped_stream_to_file((x for x in [bound(pt, scen.rdflib_container(stmts, "TRIPLES" if arity == 3 else "QUADS"), "rdflib")]),
                                               buf, options=opts)
            return ("ok", buf.getvalue(), True, cap.streams, projection)
        except Exception as exc:  # noqa: BLE001
            return ("raised", exc, cap.streams)


def check_point(pt, stmts, acc):
    integ = pt["entry"].split(".")[0]
    arity = len(stmts[0])
    short_statements = False
    if "phys" in pt and ((pt["phys"] == "TRIPLES") != (arity == 3)):
        if pt["phys"] != "TRIPLES" and arity == 3:
            # a QuadStream / GraphStream fed triples: every statement is one term short. It must be refused - or, if a
            # combination takes the triples for default-graph content, write exactly that
            short_statements = True
        elif not (integ == "rdflib" and pt["phys"] == "TRIPLES" and arity == 4 and pt.get("form") == "container"):
            # a TripleStream fed quads: only the documented Dataset-with-TripleStream case is meaningful
            return None
    case = {"point": pt, "statements": stmts}
    try:
        r = execute(pt, stmts)
    except pyj.FramesChangedAfterYield as exc:
        return Violation("C06:frames-changed-after-yield", f"{pt['entry']}: {exc}", case)
    if r[0] == "raised":
        if acc is not None:
            acc.case(case, False, ["refused", "refused_" + type(r[1]).__name__]
                     + (["short_writing_output_refused"] if pt.get("sink") else []))
        return None
    _, data, delim_writer, streams, _ = r
    flat_ids = (1, 2)
    nondefault = (not pt["delimited"]) or pt["logical"] not in flat_ids or pt["flow"] is not None or (
        pt["frame_size"] is not None and pt["frame_size"] < len(stmts) + 1)
    if acc is not None:
        acc.case(case, bool(nondefault), ["accepted", "entry_" + pt["entry"]] + (["accepted_nondefault"] if nondefault else [])
                 + (["options_reused_" + pt["reuse"]] if pt.get("reuse") else [])
                 + (["short_writing_output_accepted"] if pt.get("sink") else []))
    lt = pt["logical"]
    kind = "flat" if lt in flat_ids else ("unspecified" if lt == 0 else "grouped") if lt is not None else "default"
    flowname = (pt["flow"] or "inferred").split(":")[0]
    bucket = flowname
    for s in streams:
        if len(s.flow):
            return Violation(f"C06:rows-left-in-flow:{bucket}", f"{pt['entry']} returned with {len(s.flow)} rows still in the "
                             f"stream's flow ({type(s.flow).__name__}); {len(data)} bytes written", case)
    if short_statements:
        if acc is not None:
            acc.count("stream_for_quads_fed_triples_accepted")
        res = jellyref.decode(data, delim_writer, "strict") if data else None
        got = None if res is None or res.error is not None else [[list(T.norm(t)) for t in s[:3]] for s in res.statements
                                                                 if len(s) == 3 or s[3][0] == "default"]
        conv = (lambda t: T.norm(t)) if integ == "generic" else (lambda t: T.norm(T.rdflib_canon(t)))
        want = [[list(conv(t)) for t in s] for s in stmts]
        if got is None or sorted(map(repr, got)) != sorted(map(repr, want)):
            return Violation(f"C06:short-statements-accepted:{bucket}", f"{pt['entry']} with a {pt['phys']} stream accepted "
                             f"{len(stmts)} triples and returned normally; the {len(data)} bytes written hold "
                             f"{'no decodable content' if got is None else str(len(got)) + ' of them'}", case)
        return None
    if not data:
        return Violation(f"C06:nothing-written:{bucket}", f"{pt['entry']} accepted the configuration and wrote nothing for "
                         f"{len(stmts)} statements", case)
    res = jellyref.decode(data, delim_writer, "strict")
    if res.error is not None:
        return Violation(f"C06:invalid-output:{bucket}", f"{pt['entry']}: output rejected by the reference decoder: {res.error}", case)
    got = [[list(T.norm(t)) for t in s] for s in res.statements]
    # what the input is, per integration / container semantics
    wrote_triples = bool(got) and len(got[0]) == 3
    # the documented quirk only: an explicit TripleStream, or a GRAPHS base logical type, given quad data
    quirk = pt.get("phys") == "TRIPLES" or (pt.get("logical") is not None and pt["logical"] % 10 == 3)
    if wrote_triples and arity == 4 and not quirk:
        return Violation(f"C06:graph-names-dropped:{bucket}", f"{pt['entry']}: {len(stmts)} quads handed over, the output holds "
                         f"triples (no stream class or GRAPHS logical type was asked for)", case)
    if integ == "generic":
        want = [[list(T.norm(t)) for t in s] for s in stmts]
        if wrote_triples and arity == 4:
            want = [s[:3] for s in want]  # documented quirk
        ok = got == want
    else:
        container = pt.get("form") == "container" or pt["entry"] in ("rdflib.serialize_options", "rdflib.grouped_stream_to_file",
                                                                     "rdflib.serialize_stream")
        wn = [[list(T.norm(T.rdflib_canon(t))) for t in s] for s in stmts]
        if wrote_triples and arity == 4:
            wn = [s[:3] for s in wn]
        graphs_from_gen = pt.get("phys") == "GRAPHS" and pt.get("form") == "generator"
        if container or graphs_from_gen:
            ok = {repr(s) for s in got} == {repr(s) for s in wn}
        else:
            ok = got == wn
    if not ok:
        return Violation(f"C06:output-differs:{bucket}", f"{pt['entry']}: {len(got)} statements decoded from the output, "
                         f"{len(stmts)} submitted; first decoded {got[:1]!r}", case)
    try:
        back = pyj.only_statements(pyj.parse_flat(data, "generic"))
    except Exception as exc:  # noqa: BLE001
        return Violation(f"C06:own-reader-rejects:{bucket}", f"{pt['entry']}: pyjelly cannot read what it wrote: {exc!r}", case)
    if [[list(T.norm(t)) for t in s] for s in back] != got:
        return Violation(f"C06:own-reader-differs:{bucket}", f"{pt['entry']}: pyjelly reads its output differently from the "
                         f"reference decoder", case)
    return None


def check_case(case):
    return check_point(case["point"], case["statements"], None)


def inputs_for(seed, tier):
    n = 3 if tier == "quick" else 8
    out = {}
    for arity in (3, 4):
        seqs = draw_examples(gen.statement_seq(arity=arity, mode="rdflib", max_len=6, min_len=1), 40, seed + arity)
        by_len = {}
        for s in seqs:
            by_len.setdefault(len(s), s)
        picked = [by_len[k] for k in sorted(by_len)][:n + 2]
        lens = sorted({1, 2, 4} & set(by_len)) or sorted(by_len)[:3]
        out[arity] = [by_len[k] for k in (lens if tier == "quick" else sorted(by_len))]
    # two fixed shapes generated data rarely has: a consecutive duplicate, and one triple in two graphs back to back
    a = [["iri", "http://ex.org/s"], ["iri", "http://ex.org/p"], ["lit", "v", None, None]]
    b = [["iri", "http://ex.org/s2"], ["iri", "http://ex.org/p"], ["iri", "http://ex.org/o"]]
    out[3].append([a, a, b, b])
    g1, g2 = ["iri", "http://ex.org/g1"], ["bnode", "g2"]
    out[4].append([a + [g1], a + [g2], b + [g2], b + [["default"]], a + [["default"]]])
    return out


def run_shard(spec) -> Acc:
    acc = Acc()
    acc.MAX_SAMPLES = 2
    known = set(spec["known"])
    pts = lattice()
    inputs = inputs_for(spec["seed"], spec["tier"])
    seen = set()
    for i, pt in enumerate(pts):
        if i % spec["of"] != spec["shard"]:
            continue
        for arity in ((pt["arity"],) if "arity" in pt else (3, 4)):
            for stmts in inputs[arity]:
                v = check_point(pt, stmts, acc)
                if v is None:
                    continue
                if v.signature in known:
                    acc.known_hits[v.signature] += 1
                elif v.signature not in seen:
                    seen.add(v.signature)
                    acc.violations.append(v.to_json())
    acc.extra["lattice_points"] = sum(1 for i in range(len(pts)) if i % spec["of"] == spec["shard"])
    acc.extra["exhaustive"] = True
    return acc


def plan(tier, seed):
    return [{"shard": i, "of": 16} for i in range(16)]
