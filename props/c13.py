"""C13 - stream header fidelity and stream-type validation."""
from __future__ import annotations

import io

from hypothesis import strategies as st

from vlib import env  # noqa: F401
from vlib import jellyenc, jellyref, pyj, wire
from vlib import terms as T
from vlib.harness import Acc, Violation, hyp_search

ID = "C13"
LEVEL = "exploration"
RULE = (
    "(1) Hypothesis: stream class x logical type x LookupPreset (boundary-heavy: 8, 9, 127, 128, 4095, 4096; 0 for "
    "prefixes / datatypes) x StreamParameters fields (stream names from st.text(), flags, namespace declarations) x "
    "delimited / non-delimited x inferred or explicit flow x optional prior use of the same options object for another "
    "stream (then changed in place or via dataclasses.replace) -> header written by pyjelly -> get_options_and_frames(bytes) "
    "must report every field as written, and the same values must be on the wire as read by my own codec (so a symmetric "
    "encode/decode swap is caught); version == 2 iff namespace declarations. (2) exhaustive tables: 3 stream classes x 8 "
    "logical types on construction and 4 x 8 physical/logical pairs on parse (headers crafted with my codec) accepted iff "
    "the spec matrix allows; name table 0..7 refused on both sides; each table 4097 / 2^31 refused on read; versions 1..5 "
    "on read (3+ refused, 1 and 2 accepted); (3) exhaustive 8 logical types x {flat, grouped} parser x strict {T,F} x both "
    "integrations (flat also through the pre-read path frames=/options=): strict flat parsers accept exactly FLAT_TRIPLES / FLAT_QUADS, strict grouped parsers exactly the five "
    "grouped types; without strict the logical type never changes the result - for the grouped parsers incl. the number of containers - (metamorphic, crafted one-frame and multi-frame streams with leading / interleaved / trailing empty frames, differing only "
    "in that field). non-trivial = header with >=3 non-default fields, or a point on the accept/reject border; distinct by "
    "case hash."
)
ASSUMPTIONS = [
    "spec compatibility matrix: TRIPLES <-> {UNSPECIFIED, FLAT_TRIPLES, GRAPHS, SUBJECT_GRAPHS}; QUADS, GRAPHS <-> "
    "{UNSPECIFIED, FLAT_QUADS, DATASETS, NAMED_GRAPHS, TIMESTAMPED_NAMED_GRAPHS}",
    "'tables larger than 4096' is only required to be rejected on read, as stated; version 0 is not asserted",
]

sizes_names = st.sampled_from([8, 9, 16, 127, 128, 4000, 4095, 4096])
sizes_other = st.sampled_from([0, 1, 2, 127, 128, 150, 4095, 4096])
TRIPLE_LOGICALS = {0, 1, 3, 13}
QUAD_LOGICALS = {0, 2, 4, 14, 114}
GROUPED = {3, 4, 13, 14, 114}
FLAT = {1, 2}


@st.composite
def header_case(draw):
    phys = draw(st.sampled_from(["TRIPLES", "QUADS", "GRAPHS"]))
    allowed = sorted(TRIPLE_LOGICALS if phys == "TRIPLES" else QUAD_LOGICALS)
    logical = draw(st.sampled_from(allowed))
    flow = draw(st.sampled_from([None, None, None, "ManualFrameFlow:lt", "BoundedFrameFlow:lt"]))
    return {"kind": "roundtrip", "phys": phys, "logical": logical, "flow": flow,
            "delimited": draw(st.booleans()), "frame_size": draw(st.sampled_from([1, 250])),
            "preset": [draw(sizes_names), draw(sizes_other), draw(sizes_other)],
            "params": {"generalized": draw(st.booleans()), "rdf_star": draw(st.booleans()),
                       "namespace_declarations": draw(st.booleans()),
                       # an explicitly passed version (e.g. taken over from a parsed stream) must not override the rule
                       "version": draw(st.sampled_from([None, None, 1, 2, 7])),
                       "stream_name": draw(st.one_of(st.just(""), st.text(max_size=30), st.text(min_size=100, max_size=140)))},
            "with_statement": draw(st.booleans()),
            "reuse": draw(st.one_of(st.none(), st.builds(
                lambda how, ph, lt: {"how": how, "first_phys": ph, "first_logical": lt},
                st.sampled_from(["mutate", "replace"]), st.sampled_from(["TRIPLES", "QUADS", "GRAPHS"]),
                st.sampled_from([0, 1, 2, 3, 4, 13, 14, 114]))))}


def body_roundtrip(case, acc):
    from pyjelly.parse.ioutils import get_options_and_frames
    from pyjelly.serialize.ioutils import write_delimited, write_single

    try:
        if case.get("reuse"):
            # the options object has a history: another stream was built from it first, then the caller changed the
            # logical type (in place or through dataclasses.replace) - SerializerOptions is a plain mutable dataclass
            import dataclasses

            from pyjelly.integrations.generic.serialize import GenericSinkTermEncoder

            first = dict(case, logical=case["reuse"]["first_logical"], phys=case["reuse"]["first_phys"])
            opts = pyj.make_options(first)
            try:
                pyj.stream_class(first["phys"])(encoder=GenericSinkTermEncoder(lookup_preset=opts.lookup_preset), options=opts).enroll()
            except Exception:  # noqa: BLE001
                pass
            if case["reuse"]["how"] == "mutate":
                opts.logical_type = case["logical"]
                opts.frame_size = case["frame_size"]
            else:
                opts = dataclasses.replace(opts, logical_type=case["logical"], frame_size=case["frame_size"])
            if case["flow"] is not None:
                opts.flow = pyj.make_flow(case["flow"], case["logical"], case["frame_size"])
            stream = pyj.stream_class(case["phys"])(encoder=GenericSinkTermEncoder(lookup_preset=opts.lookup_preset), options=opts)
        else:
            stream = pyj.make_stream(case, "generic")
    except Exception as exc:  # noqa: BLE001
        return Violation(f"C13:allowed-config-refused:{type(exc).__name__}", f"spec-allowed configuration refused on write: {exc!r}", case)
    stream.enroll()
    emitted = []
    if case["with_statement"]:
        st_ = [["iri", "http://ex.org/s"], ["iri", "http://ex.org/p"], ["lit", "x", None, None]]
        if case["phys"] != "TRIPLES":
            st_.append(["default"])
        objs = pyj.conv_stmts([st_], "generic")[0]
        if case["phys"] == "TRIPLES":
            emitted.append(stream.triple(objs))
        elif case["phys"] == "QUADS":
            emitted.append(stream.quad(objs))
        else:
            emitted.extend(stream.graph(objs[3], [objs[:3]]))
    # collect all rows written so far + the flush
    from pyjelly import jelly

    emitted.append(stream.flow.to_stream_frame())
    emitted = [f for f in emitted if f is not None]
    out = io.BytesIO()
    if not emitted:
        return Violation("C13:no-header-written", "enroll() produced no options row", case)
    for frame in emitted:
        (write_delimited if case["delimited"] else write_single)(frame, out)
    data = out.getvalue()
    p = case["params"]
    want = {
        "physical_type": pyj.PHYS[case["phys"]],
        "logical_type": int(stream.stream_types.logical_type),
        "max_name_table_size": case["preset"][0],
        "max_prefix_table_size": case["preset"][1],
        "max_datatype_table_size": case["preset"][2],
        "stream_name": p["stream_name"],
        "generalized_statements": p["generalized"],
        "rdf_star": p["rdf_star"],
        "version": 2 if p["namespace_declarations"] else 1,
    }
    if case["logical"] != 0 and want["logical_type"] != case["logical"]:
        return Violation("C13:logical-type-not-honoured", f"requested logical type {case['logical']}, stream declares {want['logical_type']}", case)
    if acc is not None:
        nondefault = sum([case["preset"] != [4000, 150, 32], bool(p["stream_name"]), p["generalized"], p["rdf_star"],
                          p["namespace_declarations"], not case["delimited"], case["logical"] not in (1, 2)])
        acc.case(case, nondefault >= 3, ["phys_" + case["phys"], "logical_%d" % case["logical"],
                                         "delimited" if case["delimited"] else "non_delimited"])
    # on the wire (own codec)
    res = jellyref.decode(data, case["delimited"], "prefix")
    if res.options is None:
        return Violation("C13:wire-header-missing", f"no options row on the wire: {res.error}", case)
    for k, v in want.items():
        got = res.options.get(k, "" if k == "stream_name" else 0)
        if got != v and not (isinstance(v, bool) and bool(got) == v):
            return Violation(f"C13:wire-field-differs:{k}", f"field {k}: written with {v!r}, wire carries {got!r}", case)
    # what a reader is told
    try:
        opts, _frames = get_options_and_frames(io.BytesIO(data))
    except Exception as exc:  # noqa: BLE001
        return Violation(f"C13:reader-rejects-header:{type(exc).__name__}", f"get_options_and_frames raised {exc!r}", case)
    told = {
        "physical_type": int(opts.stream_types.physical_type),
        "logical_type": int(opts.stream_types.logical_type),
        "max_name_table_size": opts.lookup_preset.max_names,
        "max_prefix_table_size": opts.lookup_preset.max_prefixes,
        "max_datatype_table_size": opts.lookup_preset.max_datatypes,
        "stream_name": opts.params.stream_name,
        "generalized_statements": opts.params.generalized_statements,
        "rdf_star": opts.params.rdf_star,
        "version": opts.params.version,
    }
    for k, v in want.items():
        if told[k] != v:
            return Violation(f"C13:reader-field-differs:{k}", f"field {k}: written with {v!r}, reader is told {told[k]!r}", case)
    if opts.params.delimited != case["delimited"]:
        return Violation("C13:reader-field-differs:delimited", "delimited flag misreported", case)
    if opts.params.namespace_declarations != p["namespace_declarations"]:
        return Violation("C13:reader-field-differs:namespace_declarations", "namespace_declarations misreported", case)
    return None


# ----------------------------------------------------------------------- tables
def crafted(phys_num, logical, sizes=(8, 4, 4), version=1, n_stmts=1, phys_rows=None, shape="one_frame"):
    """A stream with the given header, built with my own codec (E's row model, no validation). shape 'multi': two empty
    frames in front, the options row in a frame of its own, every statement in its own frame, empty frames in between
    and at the end."""
    rows = [("options", {"physical_type": phys_num, "logical_type": logical, "max_name_table_size": sizes[0],
                         "max_prefix_table_size": sizes[1], "max_datatype_table_size": sizes[2], "version": version})]
    kind = phys_rows if phys_rows is not None else phys_num
    stmt = {"s": ("bnode", "a"), "p": ("bnode", "b"), "o": ("lit", "c", None)}
    groups = []
    for _ in range(n_stmts):
        if kind == 1:
            groups.append([("triple", stmt)])
        elif kind == 2:
            groups.append([("quad", {**stmt, "g": ("default",)})])
        elif kind == 3:
            groups.append([("graph_start", ("default",)), ("triple", stmt), ("graph_end",)])
    if shape == "one_frame":
        return wire.enc_stream([{"rows": rows + [r for g in groups for r in g], "metadata": []}], True)
    frames = [{"rows": [], "metadata": []}, {"rows": [], "metadata": []}, {"rows": rows, "metadata": []}]
    for g in groups:
        frames += [{"rows": g, "metadata": []}, {"rows": [], "metadata": []}]
    return wire.enc_stream(frames, True)


def table_cases():
    for cls in ("TRIPLES", "QUADS", "GRAPHS"):
        for logical in pyj.LOGICALS:
            for how in ("inferred_delimited", "inferred_nondelimited", "explicit_flow"):
                yield {"kind": "construct", "phys": cls, "logical": logical, "how": how}
    for phys in (0, 1, 2, 3):
        for logical in pyj.LOGICALS:
            yield {"kind": "parse_pair", "phys": phys, "logical": logical}
    for n in range(0, 9):
        yield {"kind": "name_table", "size": n}
    for field in (0, 1, 2):
        for size in (4096, 4097, 5000, 2 ** 31):
            yield {"kind": "big_table", "field": field, "size": size}
    for ver in (1, 2, 3, 4, 5):
        yield {"kind": "version", "version": ver}
    for integ in ("generic", "rdflib"):
        for parser in ("flat", "grouped", "flat_preread"):
            for strict in (True, False):
                for phys in (1, 2, 3):
                    for logical in pyj.LOGICALS:
                        if logical in (TRIPLE_LOGICALS if phys == 1 else QUAD_LOGICALS):
                            for shape in ("one_frame", "multi"):
                                yield {"kind": "strict", "integration": integ, "parser": parser, "strict": strict,
                                       "phys": phys, "logical": logical, "shape": shape}


def parse_any(data, integ="generic", parser="flat", strict=False):
    if parser == "flat_preread":
        # the caller read the header itself and hands options + frames over (documented signature of parse_jelly_flat)
        from pyjelly.parse.ioutils import get_options_and_frames

        conv = T.from_generic_stmt if integ == "generic" else T.from_rdflib_stmt
        inp = io.BytesIO(data)
        options, frames = get_options_and_frames(inp)
        m = pyj._parse_mod(integ)
        return scen_norm([conv(x) for x in m.parse_jelly_flat(inp, frames=frames, options=options, logical_type_strict=strict)])
    if parser == "flat":
        return scen_norm(pyj.parse_flat(data, integ, strict=strict))
    return [scen_norm(f) for f in pyj.parse_grouped(data, integ, strict=strict)]


def scen_norm(evs):
    from vlib import scen

    return scen.norm_any(evs)


def body_table(case, acc):
    k = case["kind"]
    border = True
    v = None
    if k == "construct":
        allowed = case["logical"] in (TRIPLE_LOGICALS if case["phys"] == "TRIPLES" else QUAD_LOGICALS)
        cfg = {"phys": case["phys"], "logical": case["logical"], "delimited": case["how"] != "inferred_nondelimited",
               "frame_size": 250, "preset": [8, 4, 4], "params": {}}
        if case["how"] == "explicit_flow":
            cfg["flow"] = "ManualFrameFlow:lt"
        try:
            s = pyj.make_stream(cfg, "generic")
            s.enroll()
            accepted = True
        except NotImplementedError:
            accepted = allowed  # a logical type with no flow implementation may be refused either way
        except Exception:  # noqa: BLE001
            accepted = False
        if accepted and not allowed:
            v = Violation("C13:forbidden-pair-written", f"{case['phys']} stream with logical type {case['logical']} constructed "
                          f"({case['how']})", case)
        if not accepted and allowed:
            v = Violation("C13:allowed-pair-refused-on-write", f"{case['phys']} with logical type {case['logical']} refused ({case['how']})", case)
    elif k == "parse_pair":
        allowed = case["phys"] in (1, 2, 3) and case["logical"] in (TRIPLE_LOGICALS if case["phys"] == 1 else QUAD_LOGICALS)
        data = crafted(case["phys"], case["logical"], phys_rows=case["phys"] or 1)
        for integ in ("generic", "rdflib"):
            for parser in ("flat", "grouped"):
                try:
                    got = parse_any(data, integ, parser)
                    accepted = True
                except Exception:  # noqa: BLE001
                    accepted = False
                if accepted and not allowed:
                    v = Violation("C13:forbidden-pair-accepted", f"{integ} {parser} parser accepted physical {case['phys']} / logical "
                                  f"{case['logical']} and returned {got!r}", case)
                if not accepted and allowed:
                    v = Violation("C13:allowed-pair-refused-on-read", f"{integ} {parser} parser refused physical {case['phys']} / "
                                  f"logical {case['logical']}", case)
    elif k == "name_table":
        from pyjelly.options import LookupPreset

        ok_size = case["size"] >= 8
        try:
            LookupPreset(max_names=case["size"])
            w = True
        except Exception:  # noqa: BLE001
            w = False
        if w != ok_size:
            v = Violation("C13:name-table-minimum-write", f"LookupPreset(max_names={case['size']}) accepted={w}", case)
        data = crafted(1, 1, sizes=(case["size"], 4, 4))
        try:
            parse_any(data)
            r = True
        except Exception:  # noqa: BLE001
            r = False
        if r != ok_size:
            v = Violation("C13:name-table-minimum-read", f"stream declaring name table {case['size']} accepted={r}", case)
    elif k == "big_table":
        sizes = [16, 4, 4]
        sizes[case["field"]] = case["size"]
        data = crafted(1, 1, sizes=tuple(sizes))
        try:
            parse_any(data)
            r = True
        except Exception:  # noqa: BLE001
            r = False
        if r != (case["size"] <= 4096):
            v = Violation("C13:table-maximum-read", f"stream declaring table sizes {sizes} accepted={r}", case)
    elif k == "version":
        data = crafted(1, 1, version=case["version"])
        for integ in ("generic", "rdflib"):
            try:
                parse_any(data, integ)
                r = True
            except Exception:  # noqa: BLE001
                r = False
            if r != (case["version"] <= 2):
                v = Violation("C13:version-gate", f"{integ}: stream declaring version {case['version']} accepted={r}", case)
    elif k == "strict":
        data = crafted(case["phys"], case["logical"], n_stmts=2, shape=case.get("shape", "one_frame"))
        base = crafted(case["phys"], 0, n_stmts=2, shape=case.get("shape", "one_frame"))
        try:
            got = parse_any(data, case["integration"], case["parser"], case["strict"])
            accepted = True
        except Exception as exc:  # noqa: BLE001
            accepted = False
            got = repr(exc)
        if case["strict"]:
            want = case["logical"] in (FLAT if case["parser"].startswith("flat") else GROUPED)
            if accepted != want:
                v = Violation(f"C13:strict-gate:{case['parser']}", f"{case['integration']} {case['parser']} parser, strict: logical type "
                              f"{case['logical']} accepted={accepted}, expected {want}", case)
        else:
            ref = parse_any(base, case["integration"], case["parser"], False)
            if not accepted or got != ref:
                v = Violation("C13:logical-type-influences-parse", f"{case['integration']} {case['parser']} parser, non-strict: result "
                              f"with logical type {case['logical']} differs from UNSPECIFIED: {got!r}", case)
    if acc is not None:
        acc.case(case, border, ["table_" + k])
    return v


def body(case, acc):
    if case["kind"] == "roundtrip":
        return body_roundtrip(case, acc)
    return body_table(case, acc)


def check_case(case):
    return body(case, None)


def run_shard(spec) -> Acc:
    acc = Acc()
    known = set(spec["known"])
    if spec["part"] == "tables":
        seen = set()
        for case in table_cases():
            v = body_table(case, acc)
            if v is not None:
                if v.signature in known:
                    acc.known_hits[v.signature] += 1
                elif v.signature not in seen:
                    seen.add(v.signature)
                    acc.violations.append(v.to_json())
        acc.extra["table_points"] = acc.evaluations
        acc.extra["exhaustive_tables"] = True
        return acc
    hyp_search(header_case(), body, acc, seed=spec["seed"] * 1000 + spec["shard"], max_examples=spec["n"], known=known)
    return acc


def plan(tier, seed):
    n = 300 if tier == "quick" else 6000
    return [{"part": "tables"}] + [{"part": "roundtrip", "shard": i, "n": n} for i in range(15)]
