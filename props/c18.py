"""C18 - a statement too big for the lookup tables is refused, not corrupted."""
from __future__ import annotations

from hypothesis import strategies as st

from vlib import env  # noqa: F401
from vlib import gen, jellyref, pyj, scen
from vlib import terms as T
from vlib.harness import Acc, Violation, hyp_search

ID = "C18"
LEVEL = "exploration"
RULE = (
    "Hypothesis: short statement sequences (1..4) whose statements need more distinct prefix / datatype / name entries "
    "than the table holds, and their non-overflowing neighbours: max_prefixes 1..4 with 1..4 distinct prefixes per "
    "statement (in half of the cases including the empty prefix of IRIs without separator and the empty local name of IRIs that end in one); "
    "max_datatypes 1..4 with generalized typed literals in s/p/o/g; max_names 8..28 with nested quoted triples "
    "carrying up to 27 IRIs; all three physical types, generic and (prefix and datatype cases) rdflib encoders. Oracle: serialisation "
    "raises, or the reference decoder R decodes the bytes to exactly the input; when it raises, the sequence is driven again "
    "statement by statement with the caller skipping refused statements - the file must then decode to exactly the accepted ones; when every table has at least as many "
    "slots as the largest statement has IRI / datatype occurrences the call must not raise (no blanket refusal). "
    "non-trivial = some statement's distinct-entry demand (pyjelly's documented split: last '#', else last '/') exceeds "
    "an enabled table by >= 1; distinct by case hash."
)
ASSUMPTIONS = [
    "demand is computed with the documented split rule; the no-refusal clause uses occurrence counts, which bound demand "
    "under any split rule",
]


def split(iri):
    for sep in "#/":
        k = iri.rfind(sep)
        if k >= 0:
            return iri[:k + 1], iri[k + 1:]
    return "", iri


def demand(stmt, prefixes_enabled):
    iris = [i for t in stmt for i in T.iris_of(t)]
    dts = [d for t in stmt for d in T.datatypes_of(t)]
    if prefixes_enabled:
        p = {split(i)[0] for i in iris}
        n = {split(i)[1] for i in iris}
    else:
        p, n = set(), set(iris)
    return len(p), len(n), len(set(dts)), len(iris), len(dts)


PFX = ["http://p%d.org/" % i for i in range(6)]
LOC = ["l%d" % i for i in range(30)]
# the empty prefix (IRIs with neither '/' nor '#') and the empty local name (IRIs ending in a separator) are table keys too
PFX_E = ["", "http://p0.org/", "http://p1.org/", "http://p2.org/", "http://p3.org/", "urn:x#"]
LOC_E = ["", "l0", "l1"]
DTS = ["http://dt.org/t%d" % i for i in range(6)]


@st.composite
def overflow_case(draw):
    kind = draw(st.sampled_from(["prefix", "prefix", "datatype", "name"]))
    phys = draw(st.sampled_from(["TRIPLES", "QUADS", "GRAPHS"]))
    arity = 3 if phys == "TRIPLES" else 4
    integration = "generic"
    n_stmts = draw(st.integers(1, 4))
    stmts = []
    if kind == "prefix":
        integration = draw(st.sampled_from(["generic", "rdflib"]))
        m = draw(st.integers(1, 5))
        with_empty = draw(st.booleans())
        pool = (PFX_E if with_empty else PFX)[:m + 1 if with_empty else m]
        locs = LOC_E if with_empty else LOC[:3]
        for _ in range(n_stmts):
            s_ = []
            for _ in range(arity):
                iri = draw(st.sampled_from(pool)) + draw(st.sampled_from(locs))
                s_.append(["iri", iri or "l0"])
            stmts.append(s_)
        preset = [draw(st.sampled_from([8, 16])), draw(st.integers(1, 4)), 32]
    elif kind == "datatype":
        integration = draw(st.sampled_from(["generic", "generic", "rdflib"]))
        m = draw(st.integers(1, 5))
        pool = DTS[:m]
        for _ in range(n_stmts):
            s = [["lit", draw(st.sampled_from(["1", "2"])), None, draw(st.sampled_from(pool))] for _ in range(arity)]
            if draw(st.booleans()):
                s[1] = ["iri", "http://p0.org/p"]
            if integration == "rdflib" and arity == 4:
                # the rdflib encoder takes literals in s/p/o (generalized statements) but not as graph names
                s[3] = draw(st.sampled_from([["default"], ["iri", "http://p0.org/g"]]))
            stmts.append(s)
        preset = [16, draw(st.sampled_from([0, 8])), draw(st.integers(1, 4))]
    else:
        def q(depth):
            leaf = st.builds(lambda l: ["iri", "http://p0.org/" + l], st.sampled_from(LOC + [""]))
            if depth == 0:
                return leaf
            sub = st.one_of(leaf, q(depth - 1), q(depth - 1))
            return st.builds(lambda a, b, c: ["triple", a, b, c], sub, sub, sub)
        for _ in range(n_stmts):
            s = [draw(q(draw(st.integers(1, 3)))), ["iri", "http://p0.org/" + draw(st.sampled_from(LOC))],
                 draw(q(draw(st.integers(0, 2))))]
            if arity == 4:
                s.append(["iri", "http://p0.org/" + draw(st.sampled_from(LOC))])
            stmts.append(s)
        preset = [draw(st.integers(8, 28)), draw(st.sampled_from([0, 1, 8])), 0]
    return {
        "kind": kind,
        "integration": integration,
        "entry": "stream_frames_gen",
        "phys": phys,
        "logical": 1 if phys == "TRIPLES" else 2,
        "delimited": True,
        "frame_size": draw(st.sampled_from([1, 3, 250])),
        "preset": preset,
        "params": {"generalized": True, "rdf_star": True, "stream_name": ""},
        "statements": stmts,
    }


def body(case, acc):
    stmts = case["statements"]
    preset = case["preset"]
    dmax = [0, 0, 0]
    occ = [0, 0]
    for s in stmts:
        p, n, d, io, do = demand(s, preset[1] > 0)
        dmax = [max(dmax[0], n), max(dmax[1], p), max(dmax[2], d)]
        occ = [max(occ[0], io), max(occ[1], do)]
    over = [dmax[0] > preset[0], preset[1] > 0 and dmax[1] > preset[1], dmax[2] > preset[2]]
    roomy = preset[0] >= occ[0] and (preset[1] == 0 or preset[1] >= occ[0]) and preset[2] >= occ[1]
    if acc is not None:
        labels = ["kind_" + case["kind"], "integration_" + case["integration"]]
        if any(over):
            labels.append("overflow")
        if roomy:
            labels.append("roomy")
        if not any(over) and not roomy:
            labels.append("tight_fit")
        acc.case(case, any(over), labels)
    try:
        data, _ = pyj.write_stream_frames(stmts, case, case["integration"], as_sink=False)
    except Exception as exc:  # noqa: BLE001
        if roomy:
            return Violation("C18:blanket-refusal", f"tables {preset} can hold every statement (<= {occ} occurrences) "
                             f"but serialisation raised {exc!r}", case)
        if acc is not None:
            acc.count("refused")
        return continue_after_refusal(case, acc)
    res = jellyref.decode(data, True, mode="strict")
    which = "+".join(k for k, o in zip(("name", "prefix", "datatype"), over) if o) or "fits"
    if res.error is not None:
        return Violation(f"C18:corrupt:{which}", f"written bytes are not decodable: {res.error}", case)
    got = [[list(T.norm(t)) for t in s] for s in res.statements]
    if case["integration"] == "generic":
        want = scen.expected_generic(case)
    else:
        want = [[list(T.norm(T.rdflib_canon(t))) for t in s] for s in stmts]
    if case["integration"] == "rdflib" and case["phys"] == "GRAPHS":
        # rdflib groups a quad generator through a Dataset (documented): set semantics
        got = sorted(map(repr, {T.norm_stmt(s) for s in res.statements}))
        want = sorted(map(repr, {T.norm_stmt([T.rdflib_canon(t) for t in s]) for s in stmts}))
    if got != want:
        i = next((i for i, (a, b) in enumerate(zip(got, want)) if a != b), None)
        return Violation(f"C18:corrupt:{which}", f"tables {preset}: bytes decode to different data, e.g. statement {i}: "
                         f"{got[i] if i is not None and i < len(got) else None!r} instead of "
                         f"{want[i] if i is not None else None!r}", case)
    if acc is not None and any(over):
        acc.count("overflow_but_correct")
    return None


def continue_after_refusal(case, acc):
    """The caller catches the refusal, skips that statement and keeps writing to the same stream: whatever ends up in the
    file must decode to exactly the statements whose call returned (or every later call is refused as well)."""
    import io as _io

    from pyjelly.serialize.ioutils import write_delimited

    if case["phys"] == "GRAPHS":
        return None
    integ = case["integration"]
    stream = pyj.make_stream(case, integ)
    out = _io.BytesIO()
    stream.enroll()
    accepted = []
    refused = 0
    for s_, objs in zip(case["statements"], pyj.conv_stmts(case["statements"], integ)):
        try:
            f = stream.triple(objs) if case["phys"] == "TRIPLES" else stream.quad(objs)
        except Exception:  # noqa: BLE001
            refused += 1
            continue
        if f is not None:
            write_delimited(f, out)
        accepted.append(s_)
    f = stream.flow.to_stream_frame()
    if f is not None:
        write_delimited(f, out)
    if acc is not None and refused:
        acc.count("continued_after_refusal")
    if not out.getvalue():
        return None
    res = jellyref.decode(out.getvalue(), True, mode="prefix")
    if res.error is not None and not (res.error.kind == "no-options-row" and not accepted):
        return Violation("C18:corrupt-after-refusal", f"tables {case['preset']}: after {refused} refused statement(s) the file is "
                         f"not decodable: {res.error}", case)
    got = [[list(T.norm(t)) for t in st_] for st_ in res.statements]
    conv = (lambda t: T.norm(t)) if integ == "generic" else (lambda t: T.norm(T.rdflib_canon(t)))
    want = [[list(conv(t)) for t in st_] for st_ in accepted]
    if got != want:
        return Violation("C18:corrupt-after-refusal", f"tables {case['preset']}: after {refused} refused statement(s) the file "
                         f"decodes to different data than the {len(accepted)} accepted statements", case)
    return None


def check_case(case):
    return body(case, None)


def run_shard(spec) -> Acc:
    acc = Acc()
    hyp_search(overflow_case(), body, acc, seed=spec["seed"] * 1000 + spec["shard"],
               max_examples=spec["n"], known=set(spec["known"]))
    return acc


def plan(tier, seed):
    n = 400 if tier == "quick" else 8000
    return [{"shard": i, "n": n} for i in range(16)]
