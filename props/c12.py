"""C12 - streams are isolated and serialization is deterministic."""
from __future__ import annotations

import hashlib
import io
import json
import os
import subprocess
import sys
import threading

from hypothesis import strategies as st

from vlib import env  # noqa: F401
from vlib import gen, pyj, scen
from vlib import terms as T
from vlib.harness import Acc, Violation, draw_examples, hyp_search

ID = "C12"
LEVEL = "exploration"
RULE = (
    "(a) Hypothesis: k in 2..5 independent workloads (frame generators of stream_frames / flat_stream_to_frames of either "
    "integration over all physical types, statement-by-statement drivers of stream.triple()/quad() that hand control back "
    "while rows are pending, and parse_jelly_flat generators of both integrations (incl. twins: streams with equal stream options and different content); workloads with equal configuration may share one "
    "SerializerOptions object, as callers do) whose steps are interleaved by a drawn schedule owned by the harness; (b) a drawn prior history of 0..5 other streams created, partly used, abandoned or "
    "failed with an exception before the workload runs; oracle: process-wide knobs (rdflib.NORMALIZE_LITERALS, recursion limit, decimal context, locale, cwd, ...) are what they were once all workloads have finished, and every workload's output (frame bytes / parsed events) is "
    "identical to its solo run in a PRISTINE process (a fresh interpreter forks one child per baseline request, so no "
    "process-wide cache, class attribute or registry warmed by earlier cases can leak into the baseline). (c) real threads (start barrier, switch interval 1e-6 s) each running a "
    "workload repeatedly, compared with the solo bytes. (d) subprocesses with PYTHONHASHSEED in {0,1,2,random} serialising "
    "the same generated statement sequences: identical SHA-256. non-trivial = interleaving with >=10 context switches among "
    ">=2 serializers sharing IRIs; distinct by case hash."
)
ASSUMPTIONS = [
    "thread schedules are not owned by the harness: part (c) can only find, its silence is weak evidence; the deciding parts "
    "are (a), (b), (d)",
]


@st.composite
def workload(draw, pool_stmts):
    kind = draw(st.sampled_from(["ser", "ser", "ser", "parse"]))
    if kind == "parse":
        if draw(st.booleans()):
            return {"type": "parse", "src": draw(scen.stream_source(max_len=6, delimited=True)),
                    "integration": "generic"}
        # streams from the reference encoder restricted to what rdflib can hold: read by either integration
        src = draw(scen.e_case(mode="rdflib", max_len=6, delimited=True))
        src["source"] = "E"
        return {"type": "parse", "src": src, "integration": draw(st.sampled_from(["generic", "rdflib", "rdflib"]))}
    integration = draw(st.sampled_from(["generic", "rdflib"]))
    phys = draw(st.sampled_from(["TRIPLES", "QUADS", "GRAPHS"]))
    arity = 3 if phys == "TRIPLES" else 4
    base = pool_stmts[arity]
    idx = draw(st.lists(st.integers(0, len(base) - 1), min_size=1, max_size=10))
    stmts = [base[i] for i in idx]
    entry = draw(st.sampled_from(["stream_frames", "flat_stream_to_frames", "steps", "steps"])) if phys != "GRAPHS" else "stream_frames"
    bindings = None
    if integration == "rdflib" and phys == "TRIPLES" and entry == "stream_frames" and draw(st.booleans()):
        # an rdflib Graph with ONE triple (so that container order cannot matter) and several bindings, declarations on
        entry = "stream_frames_rdflib_graph"
        stmts = stmts[:1]
        names = draw(st.lists(st.sampled_from(["ex", "a", "b", "ns2", "zz", "p1", "q"]), min_size=2, max_size=5, unique=True))
        bindings = [[n, "http://ns-%s.example/%s" % (n, "x#" if i % 2 else "")] for i, n in enumerate(names)]
    if integration == "rdflib" and phys == "TRIPLES" and entry == "flat_stream_to_frames" and draw(st.booleans()):
        # ONE rdflib serializer plugin object asked to serialise its (one-triple) graph twice, nothing passed: the second
        # output must be what a fresh serializer writes
        entry = "serializer_object_twice"
        stmts = stmts[:1]
    if integration == "generic" and entry == "stream_frames" and draw(st.booleans()):
        # a generic sink (ordered) with several namespace bindings, declarations switched on
        entry = "stream_frames_sink"
        names = draw(st.lists(st.sampled_from(["ex", "a", "b", "", "ns2", "foaf", "zz", "p1"]), min_size=2, max_size=5, unique=True))
        bindings = [[n, "http://ns-%s.example/%s" % (n or "empty", "x#" if i % 2 else "")] for i, n in enumerate(names)]
    return {"type": "ser", "integration": integration, "phys": phys, "statements": stmts,
            "entry": entry, "share_options": draw(st.booleans()),
            "logical": 1 if phys == "TRIPLES" else 2, "delimited": True,
            "frame_size": draw(st.sampled_from([1, 2, 3] if entry != "steps" else [2, 5, 250])),
            "preset": draw(gen.preset_for(stmts)),
            "bindings": bindings,
            "params": {"generalized": False, "rdf_star": False, "stream_name": "",
                       "namespace_declarations": bindings is not None}}


@st.composite
def interleave_case(draw):
    pool = {3: draw(gen.statement_seq(arity=3, mode="rdflib", max_len=8, min_len=3, pool_max=4)),
            4: draw(gen.statement_seq(arity=4, mode="rdflib", max_len=8, min_len=3, pool_max=4))}
    k = draw(st.integers(2, 5))
    wl = [draw(workload(pool)) for _ in range(k)]
    history = [draw(workload(pool)) for _ in range(draw(st.integers(0, 3)))]
    # make configuration twins (same options, different statements) likely: they are the ones that can share an
    # options object
    every = history + wl
    for i in range(1, len(every)):
        if every[i]["type"] != "ser" or not draw(st.booleans()):
            continue
        twins = [w for w in every[:i] if w["type"] == "ser" and len(w["statements"][0]) == len(every[i]["statements"][0])
                 and w["integration"] == every[i]["integration"]]
        if twins:
            t = twins[draw(st.integers(0, len(twins) - 1))]
            for key in ("phys", "logical", "frame_size", "params"):
                every[i][key] = t[key]
            if every[i]["phys"] == "GRAPHS":
                every[i]["entry"] = "stream_frames"
            # one preset that fits the statements of both twins (0 = disabled stays possible only if it suits both)
            both = draw(gen.preset_for(t["statements"] + every[i]["statements"]))
            for w in every[:i + 1]:
                if w is t or (w["type"] == "ser" and w.get("preset") == t["preset"] and w.get("share_options")):
                    pass
            every[i]["preset"] = t["preset"] = both
            every[i]["share_options"] = t["share_options"] = True
    # parse twins: two streams with EQUAL stream options (hence equal ParserOptions) and different content, read by the
    # same integration - whatever a reader keeps per options value must not be shared between them
    if draw(st.integers(0, 3)) == 0:
        # make a twin pair certain in a quarter of the cases (GRAPHS streams carry the most reader state)
        ph = draw(st.sampled_from(["TRIPLES", "QUADS", "GRAPHS", "GRAPHS"]))
        integ = draw(st.sampled_from(["generic", "rdflib", "rdflib"]))
        for j in (0, 1):
            src = draw(scen.e_case(mode="rdflib", max_len=6, delimited=True, phys=ph))
            src["source"] = "E"
            wl[j] = {"type": "parse", "src": src, "integration": integ, "force_twin": j == 1}
        every = history + wl
    for i in range(1, len(every)):
        w = every[i]
        if w["type"] != "parse" or w["src"].get("source") != "E" or not (w.get("force_twin") or draw(st.booleans())):
            continue
        cands = [x for x in every[:i] if x["type"] == "parse" and x["src"].get("source") == "E" and x["src"]["mode"] == "rdflib"]
        if not cands:
            continue
        t = cands[-1] if w.get("force_twin") else cands[draw(st.integers(0, len(cands) - 1))]
        src = draw(scen.e_case(mode="rdflib", max_len=6, delimited=True, phys=t["src"]["phys"]))
        src["source"] = "E"
        for key in ("logical", "stream_name"):
            src[key] = t["src"][key]
        src["version"] = t["src"]["version"] = max(src["version"], t["src"]["version"])
        src["sizes"] = t["src"]["sizes"] = draw(gen.preset_for(
            src["statements"] + t["src"]["statements"], extra_iris=1 if (src["namespaces"] or t["src"]["namespaces"]) else 0,
            count_string=True))
        w["src"] = src
        w["integration"] = t["integration"]
        w["twin"] = t["twin"] = True
    return {"kind": "interleave", "workloads": wl, "history": history,
            "history_mode": draw(st.lists(st.sampled_from(["abandon", "partial", "fail", "complete"]), min_size=3, max_size=3)),
            "schedule": draw(st.lists(st.integers(0, 4), max_size=60))}


def options_for(w, shared):
    """SerializerOptions for a workload; workloads that ask for it and have the same configuration share ONE instance
    (re-using an options object for several streams is ordinary use)."""
    if shared is None or not w.get("share_options"):
        return pyj.make_options(w)
    key = json.dumps({k: w[k] for k in ("integration", "phys", "logical", "frame_size", "preset", "params")}, sort_keys=True)
    if key not in shared:
        shared[key] = pyj.make_options(w)
    return shared[key]


def stream_for(w, shared):
    opts = options_for(w, shared)
    cls = pyj.stream_class(w["phys"])
    if w["integration"] == "generic":
        from pyjelly.integrations.generic.serialize import GenericSinkTermEncoder

        return cls(encoder=GenericSinkTermEncoder(lookup_preset=opts.lookup_preset), options=opts)
    return cls.for_rdflib(opts)


def make_gen(w, shared=None):
    """A generator yielding comparable output items for the workload."""
    if w["type"] == "parse":
        data, _, _ = scen.source_bytes(w["src"])
        integ = w.get("integration", "generic")
        parse_jelly_flat = pyj._parse_mod(integ).parse_jelly_flat
        conv = pyj._from_stmt(integ)

        def g():
            for item in parse_jelly_flat(io.BytesIO(data)):
                yield repr(conv(item))
        return g()
    integ = w["integration"]
    if integ == "generic":
        from pyjelly.integrations.generic import serialize as ser
    else:
        from pyjelly.integrations.rdflib import serialize as ser
    stmts = pyj.conv_stmts(w["statements"], integ)
    if w["entry"] == "steps":
        # statement-level driving: control returns to the scheduler after every triple()/quad() call, i.e. also
        # while rows are pending in the stream's flow
        stream = stream_for(w, shared)

        def g():
            stream.enroll()
            for s_ in stmts:
                f = stream.triple(s_) if w["phys"] == "TRIPLES" else stream.quad(s_)
                yield f.SerializeToString(deterministic=True).hex() if f is not None else "-"
            f = stream.flow.to_stream_frame()
            yield f.SerializeToString(deterministic=True).hex() if f is not None else "-"
        return g()
    if w["entry"] == "serializer_object_twice":
        import rdflib

        from pyjelly.integrations.rdflib.serialize import RDFLibJellySerializer

        def g():
            graph = rdflib.Graph()
            for s_ in w["statements"]:
                graph.add(tuple(T.to_rdflib(t) for t in s_[:3]))
            plugin = RDFLibJellySerializer(graph)
            for _ in range(2):
                if w.get("fresh_each"):
                    plugin = RDFLibJellySerializer(graph)  # the baseline: a new serializer object per call
                out = io.BytesIO()
                plugin.serialize(out)
                yield out.getvalue().hex()
        return g()
    if w["entry"] == "stream_frames_rdflib_graph":
        import rdflib

        g = rdflib.Graph(bind_namespaces="none")
        for s_ in w["statements"]:
            g.add(tuple(T.to_rdflib(t) for t in s_[:3]))
        for p_, ns in w.get("bindings") or ():
            g.bind(p_, rdflib.URIRef(ns))
        stream = stream_for(w, shared)
        frames = ser.stream_frames(stream, g)
    elif w["entry"] == "stream_frames_sink":
        stream = stream_for(w, shared)
        frames = ser.stream_frames(stream, pyj.generic_sink(w["statements"], w.get("bindings") or ()))
    elif w["entry"] == "stream_frames":
        stream = stream_for(w, shared)
        frames = ser.stream_frames(stream, (s for s in stmts))
    else:
        frames = ser.flat_stream_to_frames((s for s in stmts), options_for(w, shared))

    def g():
        for f in frames:
            yield f.SerializeToString(deterministic=True).hex()
    return g()


def solo(w):
    return list(make_gen(w))


# ------------------------------------------------------------------ pristine baseline
SERVER = r"""
import sys, json, os
sys.path.insert(0, sys.argv[1])
from vlib import env
from props import c12
for line in sys.stdin:
    w = json.loads(line)
    r, wfd = os.pipe()
    pid = os.fork()
    if pid == 0:
        os.close(r)
        try:
            res = {"ok": c12.solo(w)}
        except BaseException as exc:
            res = {"err": f"{type(exc).__name__}: {exc}"}
        os.write(wfd, json.dumps(res).encode())
        os._exit(0)
    os.close(wfd)
    buf = b""
    while True:
        chunk = os.read(r, 1 << 16)
        if not chunk:
            break
        buf += chunk
    os.close(r)
    os.waitpid(pid, 0)
    sys.stdout.write(buf.decode() + "\n")
    sys.stdout.flush()
"""


class Pristine:
    """Solo outputs computed in a process that has never created a stream: a fresh interpreter that imports the
    library and forks one child per request. The baseline is therefore free of any process-wide state (caches,
    class attributes, registries) that earlier cases of this run may have left in the worker process."""

    def __init__(self):
        self.proc = None

    def start(self):
        e = dict(os.environ, VERIF_REPO=env.REPO, PYTHONDONTWRITEBYTECODE="1")
        self.proc = subprocess.Popen([sys.executable, "-u", "-c", SERVER, env.VERIF], stdin=subprocess.PIPE,
                                     stdout=subprocess.PIPE, stderr=subprocess.DEVNULL, env=e, text=True)

    def solo(self, w):
        if self.proc is None or self.proc.poll() is not None:
            self.start()
        self.proc.stdin.write(json.dumps(w) + "\n")
        self.proc.stdin.flush()
        line = self.proc.stdout.readline()
        if not line:
            from vlib.env import HarnessError

            raise HarnessError("pristine baseline server died")
        res = json.loads(line)
        if "err" in res:
            raise RuntimeError(res["err"])
        return res["ok"]

    def close(self):
        if self.proc is not None:
            try:
                self.proc.stdin.close()
                self.proc.wait(5)
            except Exception:  # noqa: BLE001
                self.proc.kill()
            self.proc = None


_PRISTINE = Pristine()


def pristine_solo(w):
    return _PRISTINE.solo(w)


def play_history(case, shared=None):
    for w, mode in zip(case["history"], case["history_mode"]):
        try:
            g = make_gen(w, shared)
            if mode == "abandon":
                continue
            if mode == "partial":
                next(g, None)
                continue
            if mode == "fail" and w["type"] == "ser":
                # a stream that fails in the middle of a statement
                stream = pyj.make_stream(w, w["integration"])
                stream.enroll()
                objs = pyj.conv_stmts(w["statements"][:1], w["integration"])[0]
                try:
                    (stream.triple if w["phys"] != "QUADS" else stream.quad)((objs[0], object(), objs[2], *objs[3:]))
                except Exception:  # noqa: BLE001
                    pass
                continue
            list(g)
        except Exception:  # noqa: BLE001
            pass


def process_state():
    """Process-wide knobs a serializer / parser has no business leaving changed (other code in the process reads them)."""
    import decimal
    import locale
    import warnings

    import rdflib

    ctx = decimal.getcontext()
    return {"rdflib.NORMALIZE_LITERALS": rdflib.NORMALIZE_LITERALS, "recursionlimit": sys.getrecursionlimit(),
            "decimal.prec": ctx.prec, "decimal.rounding": ctx.rounding, "switchinterval": sys.getswitchinterval(),
            "cwd": os.getcwd(), "locale": locale.setlocale(locale.LC_ALL), "warnings.filters": len(warnings.filters),
            "sys.path": len(sys.path), "environ": len(os.environ)}


def body_interleave(case, acc):
    before = process_state()
    v = _body_interleave(case, acc)
    if v is not None:
        return v
    after = process_state()
    changed = {k: (before[k], after[k]) for k in before if before[k] != after[k]}
    if changed:
        return Violation("C12:process-state-changed:" + sorted(changed)[0], f"process-wide state differs after the workloads "
                         f"ran to completion (before, after): {changed!r}", case)
    return None


def _body_interleave(case, acc):
    wl = case["workloads"]
    try:
        want = [pristine_solo({**w, "fresh_each": True} if w.get("entry") == "serializer_object_twice" else w) for w in wl]
    except RuntimeError as exc:
        return Violation("C12:solo-raises", f"{exc}", case)
    shared = {}
    play_history(case, shared)
    gens = [make_gen(w, shared) for w in wl]
    got = [[] for _ in wl]
    active = list(range(len(wl)))
    switches = 0
    last = None
    sched = list(case["schedule"])
    step = 0
    while active:
        pick = sched[step] if step < len(sched) else step
        step += 1
        i = active[pick % len(active)]
        if last is not None and last != i:
            switches += 1
        last = i
        try:
            got[i].append(next(gens[i]))
        except StopIteration:
            active.remove(i)
        except Exception as exc:  # noqa: BLE001
            return Violation(f"C12:interleaved-raises:{type(exc).__name__}", f"workload {i} raised {exc!r} when interleaved, not alone", case)
    if acc is not None:
        sers = [w for w in wl if w["type"] == "ser"]
        shared_iris = False
        if len(sers) >= 2:
            sets = [{i for s in w["statements"] for t in s for i in T.iris_of(t)} for w in sers]
            shared_iris = any(a & b for k, a in enumerate(sets) for b in sets[k + 1:])
        n_sharing = sum(1 for w in wl + case["history"] if w.get("share_options") and w["type"] == "ser")
        acc.case(case, switches >= 10 and shared_iris, ["workloads_%d" % len(wl), "history_%d" % len(case["history"])]
                 + (["switches_ge_10"] if switches >= 10 else []) + (["shared_iris"] if shared_iris else [])
                 + (["shared_options_object"] if len(shared) < n_sharing else [])
                 + (["statement_level_steps"] if any(w.get("entry") == "steps" for w in wl) else [])
                 + (["serializer_object_twice"] if any(w.get("entry") == "serializer_object_twice" for w in wl) else [])
                 + (["parse_twins_equal_options"] if sum(1 for w in wl if w.get("twin")) >= 2 else [])
                 + (["rdflib_parse"] if any(w["type"] == "parse" and w.get("integration") == "rdflib" for w in wl) else []))
    for i, (g, w) in enumerate(zip(got, want)):
        if g != w:
            return Violation(f"C12:output-depends-on-other-streams:{wl[i]['type']}", f"workload {i} ({wl[i]['type']}, "
                             f"{wl[i].get('integration')}) produced different output when interleaved with others / after the history", case)
    return None


# ----------------------------------------------------------------------- threads
def body_threads(case, acc):
    wl = case["workloads"]
    want = [pristine_solo({**w, "fresh_each": True} if w.get("entry") == "serializer_object_twice" else w) for w in wl]
    reps = case.get("reps", 30)
    results = [None] * len(wl)
    barrier = threading.Barrier(len(wl))
    old = sys.getswitchinterval()
    sys.setswitchinterval(1e-6)

    tshared = {}

    def run(i):
        barrier.wait()
        bad = None
        for _ in range(reps):
            try:
                out = list(make_gen(wl[i], tshared))
            except Exception as exc:  # noqa: BLE001
                bad = f"raised {exc!r}"
                break
            if out != want[i]:
                bad = "different output"
                break
        results[i] = bad

    threads = [threading.Thread(target=run, args=(i,)) for i in range(len(wl))]
    try:
        for t in threads:
            t.start()
        for t in threads:
            t.join(120)
    finally:
        sys.setswitchinterval(old)
    if acc is not None:
        acc.case(case, True, ["threads_%d" % len(wl)])
    for i, r in enumerate(results):
        if r:
            return Violation("C12:thread-interference", f"workload {i} in a thread: {r}", case)
    return None


# ------------------------------------------------------------------- hash seeds
HASH_SCRIPT = r"""
import sys, json, hashlib
sys.path.insert(0, sys.argv[1])
from vlib import env
from props import c12
case = json.load(open(sys.argv[2]))
print(json.dumps(c12.digests_of(case)))
"""
F11_SIG = "C12:F11-rdflib-graphstream-from-quad-generator-depends-on-hash-seed"


def via_rdflib_dataset(w):
    """rdflib's graphs_stream_frames regroups a quad generator through an rdflib Dataset (set iteration order)."""
    return w["type"] == "ser" and w["integration"] == "rdflib" and w["phys"] == "GRAPHS"


def digests_of(case):
    out = {}
    for name, pick in (("ordered", lambda w: not via_rdflib_dataset(w)), ("rdflib_dataset", via_rdflib_dataset)):
        h = hashlib.sha256()
        for w in case["workloads"]:
            if pick(w):
                for item in solo(w):
                    h.update(item.encode())
        out[name] = h.hexdigest()
    return out


def body_hashseed(case, acc):
    os.makedirs(env.WORK, exist_ok=True)
    path = os.path.join(env.WORK, f"c12_{os.getpid()}.json")
    with open(path, "w") as fh:
        json.dump(case, fh)
    runs = {}
    try:
        for hs in ("0", "1", "2", "random"):
            e = dict(os.environ, PYTHONHASHSEED=hs, VERIF_REPO=env.REPO, PYTHONDONTWRITEBYTECODE="1")
            p = subprocess.run([sys.executable, "-c", HASH_SCRIPT, env.VERIF, path], capture_output=True, text=True, env=e, timeout=300)
            if p.returncode != 0:
                from vlib.env import HarnessError

                raise HarnessError(f"hash-seed subprocess failed: {p.stderr[-500:]}")
            runs[hs] = json.loads(p.stdout.strip().splitlines()[-1])
    finally:
        os.unlink(path)
    runs["in_process"] = digests_of(case)
    if acc is not None:
        acc.case(case, True, ["hashseed_runs"] + (["has_rdflib_dataset_path"] if any(via_rdflib_dataset(w) for w in case["workloads"]) else []))
    if len({r["ordered"] for r in runs.values()}) != 1:
        return Violation("C12:bytes-depend-on-process-or-hash-seed", f"digests {({k: v['ordered'][:12] for k, v in runs.items()})!r}", case)
    if len({r["rdflib_dataset"] for r in runs.values()}) != 1:
        return Violation(F11_SIG, "rdflib GraphStream fed by a quad generator: bytes differ between PYTHONHASHSEED values "
                         f"{({k: v['rdflib_dataset'][:12] for k, v in runs.items()})!r}", case)
    return None


def body(case, acc):
    k = case["kind"]
    if k == "interleave":
        return body_interleave(case, acc)
    if k == "threads":
        return body_threads(case, acc)
    return body_hashseed(case, acc)


def check_case(case):
    try:
        return body(case, None)
    finally:
        _PRISTINE.close()


def run_shard(spec) -> Acc:
    try:
        return _run_shard(spec)
    finally:
        _PRISTINE.close()


def _run_shard(spec) -> Acc:
    acc = Acc()
    known = set(spec["known"])
    if spec["part"] == "interleave":
        hyp_search(interleave_case(), body, acc, seed=spec["seed"] * 1000 + spec["shard"], max_examples=spec["n"], known=known)
        return acc
    cases = draw_examples(interleave_case(), spec["n"], spec["seed"] * 1000 + spec["shard"])
    seen = set()
    for c in cases:
        c = {**c, "kind": spec["part"], "workloads": [w for w in c["workloads"] if w["type"] == "ser"] or c["workloads"]}
        if spec["part"] == "threads":
            c["reps"] = spec.get("reps", 30)
        else:
            # every hash-seed case also carries the two workload kinds whose bytes involve namespace bindings
            base = {"type": "ser", "phys": "TRIPLES", "share_options": False, "logical": 1, "delimited": True, "frame_size": 250,
                    "preset": [16, 8, 8], "statements": [[["iri", "http://ex.org/s"], ["iri", "http://ex.org/p"], ["lit", "v", None, None]]],
                    "bindings": [["ex", "http://ns-ex.example/"], ["a", "http://ns-a.example/x#"], ["zz", "http://ns-zz.example/"],
                                 ["q", "http://ns-q.example/x#"], ["b", "http://ns-b.example/"]],
                    "params": {"generalized": False, "rdf_star": False, "stream_name": "", "namespace_declarations": True}}
            c["workloads"] = c["workloads"] + [dict(base, integration="generic", entry="stream_frames_sink"),
                                               dict(base, integration="rdflib", entry="stream_frames_rdflib_graph")]
        v = body(c, acc)
        if v is not None and v.signature in known:
            acc.known_hits[v.signature] += 1
        elif v is not None and v.signature not in seen:
            seen.add(v.signature)
            v.case = c
            acc.violations.append(v.to_json())
    return acc


def plan(tier, seed):
    q = tier == "quick"
    return ([{"part": "interleave", "shard": i, "n": 100 if q else 3000} for i in range(12)]
            + [{"part": "threads", "shard": 50 + i, "n": 10 if q else 150, "reps": 20 if q else 100} for i in range(2)]
            + [{"part": "hashseed", "shard": 70 + i, "n": 2 if q else 20} for i in range(2)])
