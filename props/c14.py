"""C14 - namespace declarations round-trip and never affect statements."""
from __future__ import annotations

import io

from hypothesis import strategies as st

from vlib import env  # noqa: F401
from vlib import gen, jellyref, pyj, scen
from vlib import terms as T
from vlib.harness import Acc, Violation, hyp_search

ID = "C14"
LEVEL = "exploration"
RULE = (
    "Hypothesis: ordered binding lists (0..5, unique prefixes incl. the empty prefix and non-ASCII, namespace IRIs with / "
    "without '/' '#', some equal to the prefix part of statement IRIs) x statement sequences x {generic sink, rdflib Graph "
    "(bind_namespaces none and default) / Dataset} x TRIPLES / QUADS / GRAPHS x small tables (names 8..9, prefixes 0..3) so "
    "that declarations evict x entry {stream_frames with a container, Graph.serialize, flat_stream_to_file from a "
    "statement generator, grouped_stream_to_file with two sources that each carry their own bindings}. Ground truth = list(source.namespaces) after the source's own binding rules. Readers: flat, to-graph and grouped (bindings merged over the per-frame containers). Oracles: Prefix "
    "events of parse_jelly_flat == ground truth, in order; namespaces of the object returned by parse_jelly_to_graph == "
    "ground truth as a mapping; re-serialising that object reproduces the same declarations (read off the wire by the "
    "reference decoder); statements read back with the option on == with it off == input, and the call succeeds with the "
    "option on whenever it succeeds with it off; option off => no namespace row and version 1 on the wire. "
    "non-trivial = >=2 bindings, one sharing its namespace string with a statement IRI's prefix, and an eviction caused "
    "by a declaration (or >=2 bindings with a disabled prefix table); distinct by case hash."
)
ASSUMPTIONS = [
    "rdflib prefixes are chosen so that they do not collide with rdflib's built-in bindings (rdflib would rename them)",
    "'enabling declarations never changes the statements read back' is read to include: enabling them does not make a "
    "serialisation fail that succeeds without them",
]

WELL_KNOWN = ["http://purl.org/dc/terms/", "https://schema.org/", "http://xmlns.com/foaf/0.1/", "http://www.w3.org/2002/07/owl#",
              "http://www.w3.org/2001/XMLSchema#"]
SAFE_PREFIXES = ["ex", "a", "ns2", "x1", "", "ü", "p_q", "long" * 5]


@st.composite
def ns_case(draw):
    integration = draw(st.sampled_from(["generic", "rdflib"]))
    phys = draw(st.sampled_from(["TRIPLES", "QUADS", "GRAPHS"]))
    arity = 3 if phys == "TRIPLES" else 4
    mode = "rdflib" if integration == "rdflib" else draw(st.sampled_from(["gen", "rdf11"]))
    stmts = draw(gen.statement_seq(arity=arity, mode=mode, max_len=8))
    stmt_prefixes = sorted({i[:max(i.rfind("#"), i.rfind("/")) + 1] for s in stmts for t in s for i in T.iris_of(t)})
    pool = st.one_of(scen.ns_iris, st.sampled_from(stmt_prefixes)) if stmt_prefixes else scen.ns_iris
    if integration == "rdflib":
        # namespaces that every default rdflib Graph / Dataset already binds under another prefix (dcterms, schema, ...)
        pool = st.one_of(pool, pool, st.sampled_from(WELL_KNOWN))
    if integration == "generic":
        names = st.one_of(st.sampled_from(SAFE_PREFIXES), st.text(max_size=6))
    else:
        names = st.sampled_from(SAFE_PREFIXES)
    n = draw(st.integers(0, 5))
    bindings, used_p, used_n = [], set(), set()
    for _ in range(n):
        p, ns = draw(names), draw(pool)
        # rdflib keeps one prefix per namespace (its own rule); the generic sink is a prefix -> IRI mapping, so several
        # prefixes may share a namespace there
        if p in used_p or (integration == "rdflib" and (ns in used_n or not ns)):
            continue
        used_p.add(p)
        used_n.add(ns)
        bindings.append([p, ns])
    entry = draw(st.sampled_from(["stream_frames", "stream_frames", "serialize", "flat_generator", "grouped_multi"]))
    if integration == "generic" and entry == "serialize":
        entry = "stream_frames"
    if entry == "grouped_multi" and (phys == "GRAPHS" or len(stmts) < 2):
        entry = "stream_frames"  # both sources must be non-empty (the stream class is guessed from the first one)
    if phys == "GRAPHS" and entry == "flat_generator":
        entry = "stream_frames"
    ki, kd = gen.needs(stmts)
    ki = max(ki, 1)
    # tables smaller than one statement needs (1..ki-1) are included: there a statement must be refused, with or
    # without declarations in front of it
    preset = [draw(st.sampled_from([max(8, ki), max(8, ki) + 1, 4000])),
              draw(st.sampled_from(sorted({0, ki, ki + 1, 150} | set(range(1, ki))))),
              draw(st.sampled_from([max(kd, 0), kd + 1, 32])) if kd else draw(st.sampled_from([0, 32]))]
    second = []
    if entry == "grouped_multi":
        for _ in range(draw(st.integers(1, 3))):
            p, ns = draw(names), draw(pool)
            if p not in {x[0] for x in second} and ns and ns not in {x[1] for x in second}:
                second.append([p, ns])
    return {"integration": integration, "phys": phys, "statements": stmts, "bindings": bindings, "entry": entry,
            "second_bindings": second, "split": draw(st.integers(1, max(1, len(stmts) - 1))),
            "logical": 1 if phys == "TRIPLES" else 2, "delimited": draw(st.integers(0, 3)) != 0,
            "frame_size": draw(st.sampled_from([1, 3, 250])), "preset": preset,
            "graph_defaults": draw(st.booleans()),
            "explicit_version": draw(st.sampled_from([None, None, None, 1, 2])),
            "params": {"generalized": integration == "generic", "rdf_star": integration == "generic", "stream_name": ""}}


def build_source(case):
    integ = case["integration"]
    if integ == "generic":
        return pyj.generic_sink(case["statements"], case["bindings"])
    import rdflib
    from rdflib import Dataset, Graph

    if case["phys"] == "TRIPLES":
        g = Graph() if case["graph_defaults"] else Graph(bind_namespaces="none")
        for s in case["statements"]:
            g.add(tuple(T.to_rdflib(t) for t in s[:3]))
    else:
        g = Dataset()
        for s in case["statements"]:
            trip = tuple(T.to_rdflib(t) for t in s[:3])
            if s[3][0] == "default":
                g.add(trip)
            else:
                g.add((*trip, g.graph(T.to_rdflib(s[3]))))
    for p, ns in case["bindings"]:
        g.bind(p, rdflib.URIRef(ns))
    return g


def truth_of(source, integ, bindings=None):
    if integ == "generic":
        if bindings is not None:
            # ground truth = the bindings handed to sink.bind(): a mapping keyed by prefix, in first-insertion order
            out = {}
            for p, ns in bindings:
                out[p] = ["iri", ns]
            return [[p, i] for p, i in out.items()]
        out = []
        for p, i in source.namespaces:
            out.append([p, T.from_generic(i)])
        return out
    return [[p, T.from_rdflib(i)] for p, i in source.namespaces()]


def write(case, source, on: bool):
    integ = case["integration"]
    cfg = dict(case)
    cfg["params"] = dict(case["params"], namespace_declarations=on)
    if case.get("explicit_version") is not None:
        cfg["params"]["version"] = case["explicit_version"]
    if case["entry"] == "serialize":
        stream = pyj.make_stream(cfg, "rdflib")
        return source.serialize(format="jelly", encoding="jelly", stream=stream, options=stream.options), case["delimited"]
    if case["entry"] == "flat_generator":
        buf = io.BytesIO()
        if integ == "generic":
            from pyjelly.integrations.generic import serialize as ser
        else:
            from pyjelly.integrations.rdflib import serialize as ser
        ser.flat_stream_to_file((s for s in pyj.conv_stmts(case["statements"], integ)), buf, options=pyj.make_options(cfg))
        return buf.getvalue(), True
    stream = pyj.make_stream(cfg, integ)
    if integ == "generic":
        from pyjelly.integrations.generic.serialize import stream_frames
    else:
        from pyjelly.integrations.rdflib.serialize import stream_frames
    return pyj.frames_to_bytes(stream_frames(stream, source), case["delimited"]), case["delimited"]


def stmts_of(events, integ, as_set):
    evs = [e for e in events if e[0] != "prefix"]
    n = [[list(T.norm(t)) if t[0] != "BAD" else t for t in e] for e in evs]
    return sorted(map(repr, n)) if as_set else n


def body_multi(case, acc):
    """Two sources, each with its own bindings, written through ONE stream (grouped_stream_to_file): every source's
    declarations must reach the reader, in order, in front of that source's statements."""
    integ = case["integration"]
    k = case["split"]
    parts = [dict(case, statements=case["statements"][:k]), dict(case, statements=case["statements"][k:], bindings=case["second_bindings"])]
    sources = [build_source(p) for p in parts]
    truths = [truth_of(s_, integ, p_["bindings"]) for s_, p_ in zip(sources, parts)]
    cfg = dict(case)
    cfg["params"] = dict(case["params"], namespace_declarations=True)
    cfg["delimited"] = True
    buf = io.BytesIO()
    try:
        if integ == "generic":
            from pyjelly.integrations.generic import serialize as ser
        else:
            from pyjelly.integrations.rdflib import serialize as ser
        ser.grouped_stream_to_file((s_ for s_ in sources), buf, options=pyj.make_options(cfg))
    except Exception as exc:  # noqa: BLE001
        if "cannot hold all the entries" in str(exc):
            return None
        return Violation(f"C14:grouped-multi-raises:{type(exc).__name__}", f"{exc!r}", case)
    res = jellyref.decode(buf.getvalue(), True, "strict")
    if acc is not None:
        acc.case(case, len(truths[0]) + len(truths[1]) >= 2, ["entry_grouped_multi", "integration_" + integ])
    if res.error is not None:
        return Violation("C14:invalid-output-with-declarations", f"{res.error}", case)
    want = [[p, list(i)] for t_ in truths for p, i in t_]
    got = [[e[1], list(e[2])] for e in res.prefixes]
    if got != want:
        return Violation("C14:declarations-on-wire-differ", f"two sources bind {want!r}; the stream declares {got!r}", case)
    try:
        ev = pyj.parse_flat(buf.getvalue(), integ)
    except Exception as exc:  # noqa: BLE001
        return Violation(f"C14:parse-raises:{type(exc).__name__}", f"{exc!r}", case)
    if [[e[1], e[2]] for e in ev if e[0] == "prefix"] != want:
        return Violation("C14:prefix-events-differ", "reader does not deliver the declarations of every source", case)
    return None


def body(case, acc):
    if case["entry"] == "grouped_multi":
        return body_multi(case, acc)
    integ = case["integration"]
    source = build_source(case)
    from_gen = case["entry"] == "flat_generator"
    truth = [] if from_gen else truth_of(source, integ, case["bindings"])
    if integ == "generic" and not from_gen:
        held = [[p, T.from_generic(i)] for p, i in source.namespaces]
        if held != truth:
            return Violation("C14:sink-loses-bindings", f"bound {truth!r}, the sink reports {held!r}", case)
    as_set = integ == "rdflib" and not from_gen
    # option off
    try:
        off, delim = write(case, source, False)
    except Exception as exc:  # noqa: BLE001
        # refused without declarations (e.g. a table too small for a statement): with declarations the call must
        # either be refused as well or write something that still decodes to the input
        if acc is not None:
            acc.case(case, False, ["write_off_raises"])
        try:
            on, delim = write(case, build_source(case), True)
        except Exception:  # noqa: BLE001
            return None
        r_on = jellyref.decode(on, case["delimited"] if case["entry"] != "flat_generator" else True, "strict") if on else None
        if r_on is None or r_on.error is not None:
            return Violation("C14:declarations-turn-refusal-into-invalid-output", f"refused without declarations ({exc!r}); "
                             f"with declarations an undecodable file is written: {r_on.error if r_on else 'no bytes'}", case)
        got = [[list(T.norm(t)) for t in s] for s in r_on.statements]
        if integ == "generic" or from_gen:
            conv = (lambda t: T.norm(t)) if integ == "generic" else (lambda t: T.norm(T.rdflib_canon(t)))
            want = [[list(conv(t)) for t in s] for s in case["statements"]]
            ok = got == want
        else:
            ok = {repr(s) for s in got} == {repr([list(T.norm(t)) for t in s]) for s in pyj.sink_events(source, "rdflib")}
        if not ok:
            return Violation("C14:declarations-turn-refusal-into-wrong-data", f"refused without declarations ({exc!r}); with "
                             f"declarations a file is written that decodes to different statements", case)
        return None
    try:
        on, _ = write(case, build_source(case), True)
    except Exception as exc:  # noqa: BLE001
        if isinstance(exc, Exception) and "cannot hold all the entries" in str(exc):
            # declarations occupy table slots too: a tight table may legitimately refuse once they are added
            if acc is not None:
                acc.count("refused_only_with_declarations")
            return None
        return Violation(f"C14:enabling-declarations-breaks-serialisation:{case['entry']}:{type(exc).__name__}",
                         f"{integ} {case['entry']} {case['phys']}: works with the option off, raises {exc!r} with it on", case)
    if not case["statements"] and not off:
        return None
    r_off = jellyref.decode(off, delim, "strict") if off else None
    r_on = jellyref.decode(on, delim, "strict") if on else None
    if r_off is not None and (r_off.prefixes or (r_off.options or {}).get("version") != 1):
        return Violation("C14:declaration-written-with-option-off", f"option off: {len(r_off.prefixes)} namespace rows, version "
                         f"{(r_off.options or {}).get('version')}", case)
    if r_on is None or r_on.error is not None:
        return Violation("C14:invalid-output-with-declarations", f"R rejects the output with declarations: {r_on.error if r_on else 'no bytes'}", case)
    if r_on.options.get("version") != 2:
        return Violation("C14:version-not-2", f"declarations enabled but version {r_on.options.get('version')}", case)
    wire_decl = [[e[1], e[2]] for e in r_on.prefixes]
    if acc is not None:
        stmt_prefixes = {i[:max(i.rfind("#"), i.rfind("/")) + 1] for s in case["statements"] for t in s for i in T.iris_of(t)}
        shares = any(ns in stmt_prefixes for _, ns in case["bindings"])
        evict = any(a.get("overwrote") is not None for a in r_on.audit)
        nt = len(truth) >= 2 and (shares or evict or case["preset"][1] == 0)
        acc.case(case, nt, ["integration_" + integ, "phys_" + case["phys"], "entry_" + case["entry"]]
                 + (["shares_prefix_with_statement"] if shares else []) + (["eviction"] if evict else [])
                 + (["bindings_%d" % min(len(truth), 6)]))
    if wire_decl != [[p, list(i)] for p, i in truth]:
        return Violation("C14:declarations-on-wire-differ", f"bound {truth!r}, wire carries {wire_decl!r}", case)
    # reader: flat events
    try:
        ev_on = pyj.parse_flat(on, integ)
        ev_off = pyj.parse_flat(off, integ) if off else []
    except Exception as exc:  # noqa: BLE001
        return Violation(f"C14:parse-raises:{type(exc).__name__}", f"{integ} parse_jelly_flat raised {exc!r}", case)
    got_decl = [[e[1], e[2]] for e in ev_on if e[0] == "prefix"]
    if got_decl != [[p, list(i)] for p, i in truth]:
        return Violation("C14:prefix-events-differ", f"bound {truth!r}, reader delivered {got_decl!r}", case)
    if any(e[0] == "prefix" for e in ev_off):
        return Violation("C14:declaration-written-with-option-off", "reader delivered Prefix events with the option off", case)
    if integ == "generic" or from_gen:
        conv = (lambda t: T.norm(t)) if integ == "generic" else (lambda t: T.norm(T.rdflib_canon(t)))
        want = [[list(conv(t)) for t in s] for s in case["statements"]]
        want = sorted(map(repr, want)) if as_set else want
    else:
        want = sorted(repr([list(T.norm(t)) for t in s]) for s in pyj.sink_events(source, "rdflib"))
    s_on, s_off = stmts_of(ev_on, integ, as_set), stmts_of(ev_off, integ, as_set)
    if s_on != s_off or s_on != want:
        return Violation("C14:statements-changed-by-declarations", f"statements with option on / off / input differ "
                         f"({len(s_on)}/{len(s_off)}/{len(want)})", case)
    # to_graph + re-serialise
    try:
        if integ == "rdflib" and case["phys"] == "TRIPLES" and not case["graph_defaults"]:
            from rdflib import Graph

            from pyjelly.integrations.rdflib.parse import parse_jelly_to_graph

            sink = parse_jelly_to_graph(io.BytesIO(on), graph_factory=lambda: Graph(bind_namespaces="none"))
        else:
            sink = pyj.parse_to_graph(on, integ)
    except Exception as exc:  # noqa: BLE001
        return Violation(f"C14:to-graph-raises:{type(exc).__name__}", f"{integ} parse_jelly_to_graph raised {exc!r}", case)
    got_map = {p: tuple(i) for p, i in pyj.sink_namespaces(sink, integ)}
    want_map = {p: tuple(i) for p, i in truth}
    if integ == "rdflib":
        # the receiving rdflib object starts with rdflib's own default bindings; what binding the declared pairs in
        # order does to them is rdflib's rule (a namespace moves to the newly declared prefix): model = rdflib itself
        import rdflib
        from rdflib import Dataset, Graph

        base = Dataset() if case["phys"] != "TRIPLES" else (Graph() if case["graph_defaults"] else Graph(bind_namespaces="none"))
        for p, i in truth:
            base.bind(p, rdflib.URIRef(i[1]))
        want_map = {p: tuple(T.from_rdflib(i)) for p, i in base.namespaces()}
    if got_map != want_map:
        diff = {k: (got_map.get(k), want_map.get(k)) for k in set(got_map) | set(want_map) if got_map.get(k) != want_map.get(k)}
        return Violation("C14:namespaces-after-parse-differ", f"differences (got, bound): {diff!r}", case)
    # grouped reader: one container per frame; a declaration must be bound in (at least) the container of its frame,
    # whether or not that frame carries statements
    try:
        sinks = list(pyj._parse_mod(integ).parse_jelly_grouped(io.BytesIO(on)))
    except Exception as exc:  # noqa: BLE001
        return Violation(f"C14:grouped-raises:{type(exc).__name__}", f"{integ} parse_jelly_grouped raised {exc!r}", case)
    merged = {}
    for sk in sinks:
        for p, i in pyj.sink_namespaces(sk, integ):
            merged[p] = tuple(i)
    lost = [[p, i] for p, i in truth if merged.get(p) != tuple(i)]
    if lost:
        return Violation("C14:grouped-reader-loses-declarations", f"bound {truth!r}; the {len(sinks)} containers of "
                         f"parse_jelly_grouped lack {lost!r}", case)
    if not from_gen:
        try:
            cfg = dict(case)
            cfg["params"] = dict(case["params"], namespace_declarations=True)
            stream = pyj.make_stream(cfg, integ)
            if integ == "generic":
                from pyjelly.integrations.generic.serialize import stream_frames
            else:
                from pyjelly.integrations.rdflib.serialize import stream_frames
            again = pyj.frames_to_bytes(stream_frames(stream, sink), case["delimited"])
        except Exception as exc:  # noqa: BLE001
            if "cannot hold all the entries" in str(exc):
                # under-sized table: whether a statement fits depends on which terms repeat, i.e. on statement order,
                # which an rdflib container does not preserve - a refusal here is legitimate
                if acc is not None:
                    acc.count("reserialise_refused_tiny_table")
                return None
            return Violation(f"C14:reserialise-raises:{type(exc).__name__}", f"re-serialising the parsed object raised {exc!r}", case)
        r2 = jellyref.decode(again, case["delimited"], "strict")
        if r2.error is not None:
            return Violation("C14:reserialise-invalid", f"{r2.error}", case)
        d2 = {e[1]: tuple(e[2]) for e in r2.prefixes}
        if d2 != {p: tuple(i) for p, i in want_map.items()}:
            return Violation("C14:reserialised-declarations-differ", f"second generation declares {sorted(d2.items())[:4]!r}...", case)
    return None


def check_case(case):
    return body(case, None)


def run_shard(spec) -> Acc:
    acc = Acc()
    hyp_search(ns_case(), body, acc, seed=spec["seed"] * 1000 + spec["shard"], max_examples=spec["n"], known=set(spec["known"]))
    return acc


def plan(tier, seed):
    n = 300 if tier == "quick" else 4000
    return [{"shard": i, "n": n} for i in range(16)]
