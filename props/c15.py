"""C15 - all parsing entry points and both integrations agree."""
from __future__ import annotations

import io

from hypothesis import strategies as st

from vlib import env  # noqa: F401
from vlib import gen, jellyenc, pyj, scen
from vlib import terms as T
from vlib.env import HarnessError
from vlib.harness import Acc, Violation, hyp_search

ID = "C15"
LEVEL = "exploration"
RULE = (
    "(a) Hypothesis: valid RDF 1.1 byte streams - written by pyjelly's rdflib and generic serializers and by the reference "
    "encoder E with arbitrary producer choices (incl. non-canonical lexical forms such as 0^^xsd:boolean), all physical types - are parsed by all six entry points: within one integration "
    "flat == grouped (concatenated) == parse-to-graph; across integrations the results correspond term for term (IRI "
    "string, blank-node label, lexical form, language, datatype, graph name, default graph). (b) the same statement "
    "sequence and the same explicit options are serialised by both integrations through stream_frames (TripleStream, "
    "QuadStream), flat_stream_to_frames, GraphStream.graph() driven identically, and grouped_stream_to_frames over 2-3 "
    "one-statement containers that each carry their own namespace bindings (declarations on or off): the bytes must be identical. "
    "non-trivial = case with a named graph or >=2 frames, together with a language or typed literal or an IRI without "
    "separator; distinct by case hash."
)
SAFE_PREFIXES = ["ex", "a", "ns2", "x1", "", "p_q"]

ASSUMPTIONS = [
    "byte identity is not demanded for rdflib container inputs (iteration order is rdflib's) nor for graphs_stream_frames "
    "fed by a quad generator (generic groups runs, rdflib builds a Dataset)",
    "rdflib containers compare as sets",
]


def canon_stmts(stmts):
    return [[T.rdflib_canon(t) for t in s] for s in stmts]


@st.composite
def parse_case(draw):
    which = draw(st.sampled_from(["E", "E", "rdflib_writer", "generic_writer"]))
    if which == "E":
        src = draw(scen.e_case(mode="rdflib", max_len=10))
        # not canonicalised: "01"^^xsd:integer must come back as "01" from both integrations
        src["source"] = "E"
    elif which == "rdflib_writer":
        src = draw(scen.rdflib_write_case(max_len=10))
        src["source"] = "rdflib_writer"
    else:
        src = draw(scen.generic_write_case(max_len=10, mode="rdf11"))
        arity = 3 if src["phys"] == "TRIPLES" else 4
        src["statements"] = canon_stmts(draw(gen.statement_seq(arity=arity, mode="rdflib", max_len=10)))
        if not src["statements"]:
            src["entry"] = "stream_frames_gen"
        src["preset"] = draw(gen.preset_for(src["statements"]))
        src["source"] = "pyjelly"
    return {"kind": "parse", "src": src}


def bytes_of(src):
    if src["source"] == "rdflib_writer":
        return scen.write_rdflib(src)[0]
    data, _, _ = scen.source_bytes(src)
    return data


def nn(evs):
    return scen.norm_any(evs)


def as_set(evs):
    return {repr(e) for e in nn(evs) if e[0] != "prefix"}


def body_parse(case, acc):
    try:
        data = bytes_of(case["src"])
    except jellyenc.CannotEncode as exc:
        raise HarnessError(str(exc)) from exc
    if not data:
        return None
    out = {}
    for integ in ("generic", "rdflib"):
        try:
            out[integ, "flat"] = nn(pyj.parse_flat(data, integ))
            out[integ, "grouped"] = [nn(f) for f in pyj.parse_grouped(data, integ)]
            sink = pyj.parse_to_graph(data, integ)
            out[integ, "graph"] = nn(pyj.sink_events(sink, integ))
        except Exception as exc:  # noqa: BLE001
            return Violation(f"C15:entry-point-raises:{integ}:{type(exc).__name__}", f"{integ}: {exc!r} on bytes the other paths accept", case)
    gflat = out["generic", "flat"]
    rflat = out["rdflib", "flat"]
    if acc is not None:
        stmts = [e for e in gflat if e[0] != "prefix"]
        has_named = any(len(s) == 4 and s[3][0] != "default" for s in stmts)
        special = any(t[0] == "lit" and (t[2] or t[3]) for s in stmts for t in s) or any(
            t[0] == "iri" and "/" not in t[1] and "#" not in t[1] for s in stmts for t in s)
        multi = len(out["generic", "grouped"]) >= 2
        acc.case(case, (has_named or multi) and special, ["source_" + case["src"]["source"]] + (["named_graph"] if has_named else [])
                 + (["multi_frame"] if multi else []) + (["special_terms"] if special else []))
    if gflat != rflat:
        i = next((i for i, (a, b) in enumerate(zip(gflat, rflat)) if a != b), min(len(gflat), len(rflat)))
        return Violation("C15:integrations-differ:flat", f"item {i}: generic {gflat[i:i + 1]!r} vs rdflib {rflat[i:i + 1]!r}", case)
    gst = [e for e in gflat if e[0] != "prefix"]
    if [e for f in out["generic", "grouped"] for e in f] != gst:
        return Violation("C15:generic:grouped-vs-flat", "generic grouped (concatenated) differs from flat", case)
    if out["generic", "graph"] != gst:
        return Violation("C15:generic:to-graph-vs-flat", "generic parse_jelly_to_graph differs from flat", case)
    rset = {repr(e) for e in rflat if e[0] != "prefix"}
    if {repr(e) for f in out["rdflib", "grouped"] for e in f} != rset:
        return Violation("C15:rdflib:grouped-vs-flat", "rdflib grouped (merged) differs from flat", case)
    if {repr(e) for e in out["rdflib", "graph"]} != rset:
        return Violation("C15:rdflib:to-graph-vs-flat", "rdflib parse_jelly_to_graph differs from flat", case)
    if len(out["rdflib", "grouped"]) != len(out["generic", "grouped"]):
        return Violation("C15:integrations-differ:grouped-count", "different number of grouped results", case)
    for j, (a, b) in enumerate(zip(out["generic", "grouped"], out["rdflib", "grouped"])):
        if {repr(e) for e in a} != {repr(e) for e in b}:
            return Violation("C15:integrations-differ:grouped", f"frame {j} differs between integrations", case)
    return None


# ------------------------------------------------------------------------- bytes
@st.composite
def bytes_case(draw):
    phys = draw(st.sampled_from(["TRIPLES", "QUADS", "GRAPHS"]))
    arity = 3 if phys == "TRIPLES" else 4
    stmts = canon_stmts(draw(gen.statement_seq(arity=arity, mode="rdflib", max_len=12, min_len=1)))
    entry = "graph" if phys == "GRAPHS" else draw(st.sampled_from(["stream_frames", "flat_stream_to_frames", "grouped_sources"]))
    if entry == "grouped_sources":
        # several containers through ONE stream (grouped_stream_to_frames); each holds one statement (so that container
        # iteration order cannot matter) and its own namespace bindings
        sources = []
        for _ in range(draw(st.integers(2, 3))):
            stmt = canon_stmts(draw(gen.statement_seq(arity=arity, mode="rdflib", max_len=1, min_len=1)))
            binds, up, un = [], set(), set()
            for _ in range(draw(st.integers(0, 2))):
                pfx, ns = draw(st.sampled_from(SAFE_PREFIXES)), draw(scen.ns_iris)
                if pfx not in up and ns and ns not in un:
                    up.add(pfx), un.add(ns), binds.append([pfx, ns])
            sources.append({"statements": stmt, "bindings": binds})
        allst = [s for src in sources for s in src["statements"]]
        return {"kind": "bytes", "phys": phys, "statements": allst, "sources": sources, "entry": entry,
                "logical": draw(st.sampled_from(scen.GROUPED_FOR[phys] + [1 if phys == "TRIPLES" else 2])), "delimited": True,
                "frame_size": draw(gen.frame_sizes), "preset": draw(gen.preset_for(allst, allow_zero_prefix=False)),
                "params": {"generalized": False, "rdf_star": False, "stream_name": draw(gen.stream_names),
                           "namespace_declarations": draw(st.integers(0, 3)) != 0}}
    return {"kind": "bytes", "phys": phys, "statements": stmts, "entry": entry, "logical": 1 if phys == "TRIPLES" else 2,
            "delimited": draw(st.integers(0, 3)) != 0 if entry == "stream_frames" else True,
            "frame_size": draw(gen.frame_sizes), "preset": draw(gen.preset_for(stmts)),
            "params": {"generalized": False, "rdf_star": False, "stream_name": draw(gen.stream_names),
                       "namespace_declarations": draw(st.booleans())}}


def rdflib_source(src, phys):
    import rdflib

    g = rdflib.Graph(bind_namespaces="none") if phys == "TRIPLES" else rdflib.Dataset()
    for st_ in src["statements"]:
        trip = tuple(T.to_rdflib(t) for t in st_[:3])
        if phys == "TRIPLES" or st_[3][0] == "default":
            g.add(trip)
        else:
            g.add((*trip, g.graph(T.to_rdflib(st_[3]))))
    for pfx, ns in src["bindings"]:
        g.bind(pfx, rdflib.URIRef(ns), override=True, replace=True)
    return g


def serialise(case, integ):
    stmts = pyj.conv_stmts(case["statements"], integ)
    if integ == "generic":
        from pyjelly.integrations.generic import serialize as ser
    else:
        from pyjelly.integrations.rdflib import serialize as ser
    if case["entry"] == "grouped_sources":
        rconts = [rdflib_source(src, case["phys"]) for src in case["sources"]]
        if integ == "generic":
            # the generic sinks are bound to exactly what the rdflib containers report (rdflib adds its own defaults)
            conts = [pyj.generic_sink(src["statements"], [[p_, str(ns)] for p_, ns in rc.namespaces()])
                     for src, rc in zip(case["sources"], rconts)]
        else:
            conts = rconts
        return pyj.frames_to_bytes(ser.grouped_stream_to_frames((c for c in conts), pyj.make_options(case)), True)
    if case["entry"] == "stream_frames":
        stream = pyj.make_stream(case, integ)
        return pyj.frames_to_bytes(ser.stream_frames(stream, (s for s in stmts)), case["delimited"])
    if case["entry"] == "flat_stream_to_frames":
        return pyj.frames_to_bytes(ser.flat_stream_to_frames((s for s in stmts), pyj.make_options(case)), True)
    stream = pyj.make_stream(case, integ)
    stream.enroll()
    frames = []
    i = 0
    raw = case["statements"]
    while i < len(raw):
        j = i
        while j < len(raw) and raw[j][3] == raw[i][3]:
            j += 1
        frames.extend(stream.graph(stmts[i][3], [s[:3] for s in stmts[i:j]]))
        i = j
    tail = stream.flow.to_stream_frame()
    if tail is not None:
        frames.append(tail)
    return pyj.frames_to_bytes(frames, True)


def body_bytes(case, acc):
    try:
        a = serialise(case, "generic")
        b = serialise(case, "rdflib")
    except Exception as exc:  # noqa: BLE001
        return Violation(f"C15:serializer-raises:{type(exc).__name__}", f"{exc!r}", case)
    if acc is not None:
        stmts = case["statements"]
        special = any(t[0] == "lit" and (t[2] or t[3]) for s in stmts for t in s) or any(
            t[0] == "iri" and "/" not in t[1] and "#" not in t[1] for s in stmts for t in s)
        named = any(len(s) == 4 and s[3][0] != "default" for s in stmts)
        labels = ["bytes_" + case["entry"], "phys_" + case["phys"]]
        if case["entry"] == "grouped_sources" and case["params"]["namespace_declarations"] and any(
                src["bindings"] for src in case["sources"][1:]):
            labels.append("later_source_declares_namespaces")
        acc.case(case, special and (named or len(stmts) > case["frame_size"]), labels)
    if a != b:
        k = next((i for i, (x, y) in enumerate(zip(a, b)) if x != y), min(len(a), len(b)))
        return Violation("C15:serializers-not-byte-identical", f"{case['entry']} {case['phys']}: outputs differ at byte {k} "
                         f"({len(a)} vs {len(b)} bytes)", case)
    return None


def body(case, acc):
    return body_parse(case, acc) if case["kind"] == "parse" else body_bytes(case, acc)


def check_case(case):
    return body(case, None)


def run_shard(spec) -> Acc:
    acc = Acc()
    strat = parse_case() if spec["part"] == "parse" else bytes_case()
    hyp_search(strat, body, acc, seed=spec["seed"] * 1000 + spec["shard"], max_examples=spec["n"], known=set(spec["known"]))
    return acc


def plan(tier, seed):
    n = 300 if tier == "quick" else 4000
    return ([{"part": "parse", "shard": i, "n": n} for i in range(10)]
            + [{"part": "bytes", "shard": 100 + i, "n": n * 2} for i in range(6)])
