"""C10 - a truncated stream yields only a correct prefix of the data."""
from __future__ import annotations

import io

from hypothesis import strategies as st

from vlib import env  # noqa: F401
from vlib import iosim, jellyref, pyj, scen, wire
from vlib import terms as T
from vlib.env import HarnessError
from vlib.harness import Acc, Violation, case_hash, hyp_search

ID = "C10"
LEVEL = "fault_enumeration"
RULE = (
    "Hypothesis draws valid delimited streams (pyjelly-written and reference-encoder-written, up to ~20 frames, incl. "
    "leading / interior empty frames, some frames > 127 bytes so that length prefixes are multi-byte); for each stream "
    "EVERY cut offset k in [0, len] is enumerated (for the rare stream > 3000 bytes: every offset within 8 bytes of a frame "
    "boundary or length prefix and every 251st in between) x source {BytesIO, non-seekable short-reading raw ending in EOF, the same "
    "raw source and a BufferedReader over it ending in an exception (connection reset)} x {flat, grouped} (every cut under a 20 s deadline: the parser must end or raise) x "
    "generic (and rdflib flat for RDF 1.1 content). Items are collected until StopIteration or any Exception. Oracle: "
    "(i) the items are a prefix of the sequence the stream denotes according to the reference decoder R (never a foreign or "
    "reordered item; for grouped: sink j == the statements R attributes to frame j), (ii) at least the statements of all frames lying entirely inside data[:k] were yielded. "
    "non-trivial = k strictly inside a frame or its length prefix, or exactly on an interior frame boundary (each class "
    "counted); distinct by (stream hash, k)."
)
ASSUMPTIONS = [
    "a partial frame's leading statements may or may not be yielded - both allowed",
    "frame end offsets come from my own wire codec",
]


@st.composite
def case_strategy(draw):
    src = draw(scen.stream_source(max_len=8, delimited=True))
    if src["source"] == "pyjelly" and draw(st.booleans()):
        # a long literal makes some frame exceed 127 bytes -> two-byte length prefix; rarely > 16383 -> three bytes
        if src["statements"]:
            src["statements"][0][2] = ["lit", "L" * draw(st.sampled_from([130, 200, 200, 130, 17000])), None, None]
    return {"src": src, "schedule": draw(st.sampled_from([[1], [2], [3], [5, 1], [64]]))}


def body(case, acc):
    from vlib.harness import Hang

    try:
        return _body(case, acc)
    except Hang:
        return Violation("C10:hang", f"a parse call on a truncated stream neither ended nor raised within {PER_CUT_LIMIT:.0f} s "
                         f"(cut offset {_LAST_CUT.get('k')})", {**case, "k": _LAST_CUT.get("k")})


PER_CUT_LIMIT = 20.0
_LAST_CUT = {}


def _body(case, acc):
    from vlib.harness import deadline

    data, delimited, rdflib_ok = scen.source_bytes(case["src"])
    if not data or not delimited:
        return None
    ref = jellyref.decode(data, True, "strict")
    if ref.error is not None:
        if case["src"]["source"] == "pyjelly":
            # pyjelly wrote a stream the reference decoder rejects: C03's subject; nothing to cut / stall here
            if acc is not None:
                acc.count("source_stream_invalid_skipped")
            return None
        raise HarnessError(f"source stream invalid: {ref.error}")
    ends = wire.frame_end_offsets(data)
    starts = [0] + ends[:-1]
    # events completed by frame j (cumulative)
    cum = []
    total = 0
    for fe in ref.frame_events:
        total += len(fe)
        cum.append(total)
    # the "original statement sequence" is what the stream denotes according to the reference decoder - not what
    # pyjelly's own full parse returns (a decoder defect would otherwise be on both sides of the comparison)
    full = {"generic": scen.norm_any(ref.events)}
    if rdflib_ok:
        full["rdflib"] = scen.norm_any(ref.events)
    full_grouped = [scen.norm_any([e for e in fe if e[0] != "prefix"]) for fe in ref.frame_events]
    only_k = case.get("k")
    sh = case_hash(case["src"]) if acc is not None else None
    if acc is not None and len(acc.extra.setdefault("sample_streams", [])) < 1:
        acc.extra["sample_streams"].append({"case": case, "bytes_hex": data.hex(), "frame_ends": ends,
                                            "cut_offsets": f"0..{len(data)} (all)"})
    if len(data) > 3000:
        # a very large frame: every offset near a frame boundary or a length prefix, and every 251st offset in between
        offsets = sorted({k for e in [0, *ends] for k in range(max(0, e - 6), min(len(data), e + 8) + 1)}
                         | set(range(0, len(data) + 1, 251)) | {len(data)})
    else:
        offsets = range(len(data) + 1)
    for k in offsets:
        if only_k is not None and k != only_k:
            continue
        complete = sum(1 for e in ends if e <= k)
        need = cum[complete - 1] if complete else 0
        need_stmts = sum(1 for fe in ref.frame_events[:complete] for e in fe if e[0] != "prefix")
        if acc is not None:
            labels = []
            if k in ends[:-1]:
                labels.append("cut_on_interior_frame_boundary")
            elif 0 < k < len(data):
                # inside a length prefix?
                j = next(i for i, e in enumerate(ends) if e > k)
                plen = len(wire.enc_varint(ends[j] - starts[j] - len(wire.enc_varint(0))))  # approx
                hdr = len(wire.enc_varint(ends[j] - starts[j]))
                # exact header length: frame payload length L satisfies start + len(varint(L)) + L == end
                for h in (1, 2, 3):
                    L = ends[j] - starts[j] - h
                    if L >= 0 and len(wire.enc_varint(L)) == h:
                        hdr = h
                        break
                if k < starts[j] + hdr and hdr > 1 and k > starts[j]:
                    labels.append("cut_inside_multibyte_length_prefix")
                else:
                    labels.append("cut_inside_frame")
            acc.case({"stream": sh, "k": k, "of": len(data)}, bool(labels), labels)
        cut = data[:k]
        _LAST_CUT["k"] = k
        with deadline(PER_CUT_LIMIT):
            v = _one_cut(case, data, k, cut, full, full_grouped, ends, need, need_stmts, complete, rdflib_ok, ref)
        if v is not None:
            return v
    return None


def _one_cut(case, data, k, cut, full, full_grouped, ends, need, need_stmts, complete, rdflib_ok, ref):
    if True:
        for integ in full:
            for srckind in ("bytesio", "raw", "raw_reset", "buffered_reset"):
                if srckind == "bytesio":
                    source = io.BytesIO(cut)
                elif srckind == "raw":
                    source = iosim.DribbleRaw(cut, case["schedule"])
                else:
                    # a dropped connection that surfaces as an exception from the source instead of EOF
                    source = iosim.DribbleRaw(data, case["schedule"], limit=k, stall=True)
                    if srckind == "buffered_reset":
                        source = io.BufferedReader(source)
                items, exc = pyj.parse_flat_partial(None, integ, source=source)
                items = scen.norm_any(items)
                if items != full[integ][:len(items)]:
                    return Violation("C10:flat-not-a-prefix", f"{integ}/{srckind} cut at {k}/{len(data)}: yielded "
                                     f"{items[-1:]!r} which is not the original item at that position", {**case, "k": k})
                if len(items) < need:
                    return Violation("C10:flat-lost-complete-frame", f"{integ}/{srckind} cut at {k}/{len(data)}: {complete} "
                                     f"frames fully delivered ({need} items) but only {len(items)} yielded "
                                     f"({type(exc).__name__ if exc else 'clean end'})", {**case, "k": k})
        # rdflib Graph.parse / Dataset.parse into the caller's own store: after the error the store must hold at least
        # the statements of the completely delivered frames, and nothing the stream does not denote
        if rdflib_ok and (k % 3 == 0 or k in ends):
            import rdflib

            phys_num = (ref.options or {}).get("physical_type", 1)
            sink = rdflib.Graph() if phys_num == 1 else rdflib.Dataset()
            try:
                sink.parse(data=cut, format="jelly")
            except Exception:  # noqa: BLE001
                pass
            held = {T.norm_stmt(x) for x in pyj.sink_events(sink, "rdflib")}
            denoted = [tuple(tuple(t) for t in e) for e in full["rdflib"] if e[0] != "prefix"]
            if not held <= set(denoted):
                return Violation("C10:graph-holds-foreign-statement", f"cut at {k}/{len(data)}: the caller's graph holds a statement "
                                 f"the stream does not denote", {**case, "k": k})
            must = set(denoted[:need_stmts])
            if not must <= held:
                return Violation("C10:graph-lost-complete-frame", f"cut at {k}/{len(data)}: {complete} frames fully delivered "
                                 f"({len(must)} distinct statements) but the caller's graph holds only {len(held & must)} of them",
                                 {**case, "k": k})
        # grouped (generic)
        for srckind in ("bytesio", "raw"):
            source = io.BytesIO(cut) if srckind == "bytesio" else iosim.DribbleRaw(cut, case["schedule"])
            sinks = []
            try:
                from pyjelly.integrations.generic.parse import parse_jelly_grouped

                for sink in parse_jelly_grouped(source):
                    sinks.append(scen.norm_any(pyj.sink_events(sink, "generic")))
            except Exception:  # noqa: BLE001
                pass
            if sinks != full_grouped[:len(sinks)]:
                return Violation("C10:grouped-not-a-prefix", f"grouped/{srckind} cut at {k}/{len(data)}: sink {len(sinks) - 1} "
                                 f"differs from the original", {**case, "k": k})
            if sum(len(s) for s in sinks) < need_stmts:
                return Violation("C10:grouped-lost-complete-frame", f"grouped/{srckind} cut at {k}/{len(data)}: statements of "
                                 f"fully delivered frames missing", {**case, "k": k})
    return None


def check_case(case):
    return body(case, None)


def run_shard(spec) -> Acc:
    acc = Acc()
    acc.MAX_SAMPLES = 2
    hyp_search(case_strategy(), body, acc, seed=spec["seed"] * 1000 + spec["shard"],
               max_examples=spec["n"], known=set(spec["known"]))
    return acc


def plan(tier, seed):
    n = 10 if tier == "quick" else 300
    return [{"shard": i, "n": n} for i in range(16)]
