"""C02 - rdflib Graph/Dataset round trip preserves the RDF data."""
from __future__ import annotations

from vlib import env  # noqa: F401
from vlib import scen
from vlib.harness import Acc, Violation, hyp_search

ID = "C02"
LEVEL = "exploration"
RULE = (
    "Hypothesis: RDF 1.1 statement sets (s IRI|BNode, p IRI, o IRI|BNode|plain/lang/typed literal, g IRI|BNode|default) "
    "built into rdflib Graph (TRIPLES) / Dataset (QUADS, GRAPHS; sometimes with registered named graphs that hold no triples) x entry point (Graph.serialize to bytes / to a "
    "destination, stream_frames, flat_stream_to_file, grouped_stream_to_file) x flat or grouped logical type x "
    "boundary presets x frame sizes x delimited / non-delimited flat x reader (Graph/Dataset.parse, "
    "parse_jelly_to_graph, parse_jelly_flat, parse_jelly_grouped merged). Oracle: set of (kind, string, language, "
    "datatype-or-None-if-xsd:string) tuples incl. graph names equals the set held by the rdflib objects built from the "
    "input. non-trivial = >=2 statements and (eviction or >=2 frames or elision) and, for datasets, >=2 distinct graph "
    "names; distinct by case hash."
)
ASSUMPTIONS = [
    "rdflib objects are constructed first and are the ground truth (rdflib normalises lexical forms at construction)",
    "language tags are restricted to what rdflib accepts",
]


def body(case, acc):
    try:
        data, delimited = scen.write_rdflib(case)
    except Exception as exc:  # noqa: BLE001
        return Violation(f"C02:write-raises:{type(exc).__name__}", f"serialisation raised {exc!r}", case)
    if acc is not None:
        labels, nt = scen.features(case, data, delimited)
        graphs = {tuple(s[3]) for s in case["statements"] if len(s) > 3}
        if len(graphs) >= 2:
            labels.append("multi_graph")
        if any(g[0] == "bnode" for g in graphs):
            labels.append("bnode_graph")
        if ("default",) in graphs:
            labels.append("default_graph")
        if case.get("empty_graphs"):
            labels.append("empty_named_graph")
        labels.append("logical_%d" % case["logical"])
        labels.append("reader_" + case["reader"])
        nt = len(case["statements"]) >= 2 and any(x in labels for x in ("eviction", "multi_frame", "elision")) and (
            case["phys"] == "TRIPLES" or len(graphs) >= 2)
        acc.case(case, nt, labels)
    want = scen.expected_rdflib(case)
    try:
        got = scen.read_rdflib(data, case["reader"], case["phys"])
    except Exception as exc:  # noqa: BLE001
        if not case["statements"]:
            return None
        return Violation(f"C02:read-raises:{type(exc).__name__}", f"parsing own output raised {exc!r}", case)
    if got != want:
        missing = sorted(want - got, key=repr)[:2]
        extra = sorted(got - want, key=repr)[:2]
        return Violation("C02:set-differs", f"missing {missing!r} extra {extra!r}", case)
    return None


def check_case(case):
    return body(case, None)


def run_shard(spec) -> Acc:
    acc = Acc()
    hyp_search(scen.rdflib_write_case(max_len=spec.get("max_len", 14)), body, acc,
               seed=spec["seed"] * 1000 + spec["shard"], max_examples=spec["n"], known=set(spec["known"]))
    return acc


def plan(tier, seed):
    n = 400 if tier == "quick" else 4000
    return [{"shard": i, "n": n, "max_len": 14 if tier == "quick" else 40} for i in range(16)]
