"""C09 - parsing is independent of how the byte source chunks its reads."""
from __future__ import annotations

import io

from hypothesis import strategies as st

from vlib import env  # noqa: F401
from vlib import iosim, pyj, scen
from vlib import terms as T
from vlib.env import HarnessError
from vlib.harness import Acc, Violation, hyp_search

ID = "C09"
LEVEL = "fault_enumeration"
RULE = (
    "Hypothesis: valid streams (pyjelly-written and reference-encoder-written, delimited and non-delimited, 1..20 frames) "
    "x source kind {BytesIO, BytesIO positioned at a non-zero offset where the stream starts, real temp file buffered / unbuffered, gzip / bz2 / lzma files on disk, gzip over BytesIO, gzip over a BufferedReader on a "
    "dribbling raw source, non-seekable RawIOBase test double, BufferedReader over it; thorough tier: real os.pipe and "
    "socketpair fed by a writer thread} x read schedule (drawn list of short-read sizes >= 1, cycled; plus the exhaustive "
    "set first-read in {1,2,3} x second in {1,2,5}) x all parse entry points of the generic integration (flat, grouped, "
    "to_graph) and rdflib flat for RDF 1.1 content. Oracle: result == result from BytesIO(data). "
    "One case in four uses a stream larger than the io buffer sizes (8 KiB / 64 KiB) with generous read sizes as well. "
    "non-trivial = schedule whose first read is < 3 bytes or whose reads split a length varint or a frame; "
    "distinct by case hash."
)
ASSUMPTIONS = [
    "gzip.open directly over a 1-byte-dribbling *raw* object fails inside CPython's gzip before pyjelly sees a byte; gzip "
    "sits on a buffered source as in the documented examples",
    "real pipe / socket schedules are only approximately controlled by the harness (kernel may coalesce writes)",
]

KINDS_QUICK = ["bytesio", "bytesio_offset", "file", "file_unbuffered", "gzip_file", "bz2_file", "lzma_file", "gzip_bytesio", "gzip_buffered_dribble", "dribble_raw",
               "dribble_raw", "dribble_raw", "buffered_dribble"]
KINDS_THOROUGH = KINDS_QUICK + ["pipe", "socket"]


def case_strategy(kinds):
    @st.composite
    def strat(draw):
        src = draw(scen.stream_source(max_len=8))
        kind = draw(st.sampled_from(kinds))
        sched = draw(st.one_of(
            st.lists(st.integers(1, 12), min_size=1, max_size=8),
            st.sampled_from([[1], [2], [1, 2], [2, 1], [3], [1, 1, 5], [2, 5], [1, 2, 3, 4, 5, 6, 7], [7], [64]]),
        ))
        if draw(st.integers(0, 3)) == 0 and src["source"] == "pyjelly" and src["statements"]:
            # a stream larger than the io buffer sizes (8 KiB, 64 KiB), served by generous reads as well
            n = draw(st.sampled_from([8200, 9000, 20000, 70000]))
            k = draw(st.integers(0, len(src["statements"]) - 1))
            src["statements"][k][2] = ["lit", "L" * n, None, None]
            sched = draw(st.sampled_from([[1 << 20], [8192], [8191], [8193], [65536], [3, 1 << 20], [1, 1, 1, 1 << 20],
                                          [1, 1 << 20], [2, 1 << 20], [4096], sched]))
        return {"src": src, "kind": kind, "schedule": sched,
                "entry": draw(st.sampled_from(["flat", "flat", "grouped", "to_graph", "rdflib_flat"]))}
    return strat()


def run_entry(entry, source, data_for_baseline=None):
    if entry == "flat":
        return scen.norm_any(pyj.parse_flat(None, "generic", source=source))
    if entry == "rdflib_flat":
        return scen.norm_any(pyj.parse_flat(None, "rdflib", source=source))
    if entry == "grouped":
        return [scen.norm_any(f) for f in pyj.parse_grouped(None, "generic", source=source)]
    sink = pyj.parse_to_graph(None, "generic", source=source)
    return [scen.norm_any(pyj.sink_events(sink, "generic")), pyj.sink_namespaces(sink, "generic")]


def body(case, acc):
    data, delimited, rdflib_ok = scen.source_bytes(case["src"])
    if not data:
        return None
    entry = case["entry"]
    if entry == "rdflib_flat" and not rdflib_ok:
        entry = "flat"
    try:
        base = run_entry(entry, io.BytesIO(data))
    except Exception:  # noqa: BLE001
        # the stream does not even parse from BytesIO: C04's / C01's subject, no chunking effect to observe
        if acc is not None:
            acc.count("baseline_unparsable_skipped")
        return None
    sched = case["schedule"]
    if acc is not None:
        from vlib import wire

        labels = ["kind_" + case["kind"], "entry_" + entry, "delimited" if delimited else "non_delimited"]
        if len(data) > 8192:
            labels.append("stream_gt_8KiB")
        if len(data) > 65536:
            labels.append("stream_gt_64KiB")
        nt = False
        if case["kind"] in ("dribble_raw", "buffered_dribble", "pipe", "socket", "gzip_buffered_dribble"):
            if sched[0] < 3:
                labels.append("first_read_lt_3")
                nt = True
            # does some read boundary fall strictly inside a frame / its length varint?
            ends = set(wire.frame_end_offsets(data)) if delimited else {len(data)}
            pos, i = 0, 0
            while pos < len(data) and i < 10000:
                pos += sched[i % len(sched)]
                i += 1
                if pos < len(data) and pos not in ends:
                    labels.append("read_splits_frame")
                    nt = True
                    break
        acc.case(case, nt, labels)
    cleanup = []
    try:
        source = iosim.open_source(case["kind"], data, sched, cleanup)
        try:
            got = run_entry(entry, source)
        except Exception as exc:  # noqa: BLE001
            first = "first-read-%d" % sched[0] if sched[0] < 3 and case["kind"] in ("dribble_raw", "buffered_dribble", "pipe", "socket") else "other"
            return Violation(f"C09:raises:{case['kind']}:{first}", f"{entry} over {case['kind']} with read schedule {sched} raised "
                             f"{type(exc).__name__}: {str(exc)[:200]} although BytesIO parses fine", case)
    finally:
        for fn in reversed(cleanup):
            try:
                fn()
            except Exception:  # noqa: BLE001
                pass
    if got != base:
        return Violation(f"C09:differs:{case['kind']}", f"{entry} over {case['kind']} with read schedule {sched} differs from BytesIO", case)
    return None


def check_case(case):
    return body(case, None)


def exhaustive_cases(seed):
    """first read in {1,2,3} x second read in {1,2,5} on both non-seekable doubles, for a few fixed streams."""
    srcs = []
    for delimited in (True, False):
        for phys in ("TRIPLES", "QUADS", "GRAPHS"):
            arity = 3 if phys == "TRIPLES" else 4
            stmts = [[["iri", "http://ex.org/s%d" % i], ["iri", "http://ex.org/p"], ["lit", "v%d" % i, None, None]]
                     + ([["iri", "http://ex.org/g"]] if arity == 4 else []) for i in range(3)]
            srcs.append({"source": "pyjelly", "integration": "generic", "entry": "stream_frames_gen", "phys": phys,
                         "logical": 1 if phys == "TRIPLES" else 2, "delimited": delimited, "frame_size": 2,
                         "preset": [8, 4, 4], "params": {"generalized": True, "rdf_star": True, "stream_name": ""},
                         "statements": stmts, "reader": "flat"})
    for src in srcs:
        for kind in ("dribble_raw", "buffered_dribble"):
            for a in (1, 2, 3):
                for b in (1, 2, 5):
                    for entry in ("flat", "grouped", "to_graph"):
                        yield {"src": src, "kind": kind, "schedule": [a, b, 64], "entry": entry}


def run_shard(spec) -> Acc:
    acc = Acc()
    known = set(spec["known"])
    if spec.get("part") == "exhaustive":
        seen = set()
        for case in exhaustive_cases(spec["seed"]):
            v = body(case, acc)
            if v is not None:
                if v.signature in known:
                    acc.known_hits[v.signature] += 1
                elif v.signature not in seen:
                    seen.add(v.signature)
                    acc.violations.append(v.to_json())
        acc.extra["exhaustive_first_second_read_cases"] = acc.evaluations
        return acc
    kinds = KINDS_THOROUGH if spec["tier"] == "thorough" else KINDS_QUICK
    hyp_search(case_strategy(kinds), body, acc, seed=spec["seed"] * 1000 + spec["shard"],
               max_examples=spec["n"], known=known)
    return acc


def plan(tier, seed):
    n = 150 if tier == "quick" else 4000
    return [{"part": "exhaustive"}] + [{"shard": i, "n": n} for i in range(15)]
