"""C11 - streaming: bounded buffering on write, no read-ahead needed on parse."""
from __future__ import annotations

import io

from hypothesis import strategies as st

from vlib import env  # noqa: F401
from vlib import gen, iosim, jellyref, pyj, scen, wire
from vlib import terms as T
from vlib.env import HarnessError
from vlib.harness import Acc, Violation, hyp_search

ID = "C11"
LEVEL = "exploration"
RULE = (
    "write: Hypothesis statement sequences fed through an instrumented iterator that logs every pull together with the "
    "number of rows pending in the stream's flow (stream objects are captured by wrapping Stream.__init__ in the harness "
    "process); configurations in which a frame size is in force: FLAT logical type + frame_size, explicit "
    "FlatTriples/FlatQuadsFrameFlow(frame_size), and frame_size with the logical type left UNSPECIFIED; entry points "
    "flat_stream_to_frames and stream_frames of both integrations (TRIPLES, QUADS) and GraphStream.graph() driven with a "
    "triple iterator; the consumer takes frames one by one; plus flat_stream_to_file writing to a BytesIO or to a raw "
    "unbuffered stream (at every pull fewer than frame_size of the statements handed over may be missing from what has "
    "reached that output). Oracle: at every pull i >= 2 fewer than frame_size rows are "
    "pending; when frame f is handed over, frames 1..f decode (reference decoder, prefix mode) to exactly the statements "
    "pulled so far. parse: every delimited stream is delivered up to the end of frame j, for EVERY j, by a raw source (and "
    "by a BufferedReader over it) that raises Stall when asked for an undelivered byte; items obtained before Stall must "
    "equal all events of frames 1..j (flat and grouped, generic; rdflib flat for RDF 1.1 content). "
    "One generic case in four uses 'fat' statements (quoted triples with all-new IRIs, 10..30 rows each) and frame sizes up "
    "to 40. non-trivial = write case with >=3 frames and a statement contributing >=3 rows; parse case with >=3 frames; "
    "distinct by case hash (write) / (stream hash, j) (parse)."
)
ASSUMPTIONS = [
    "statement iterator -> GRAPHS physical type through graphs_stream_frames is excluded: grouping by graph name needs "
    "look-ahead by documented design",
    "GraphStream.graph(): the first pull of each call is exempt from the pending-rows bound (graph-start rows have just "
    "been appended and the bound is checked after each statement); frames-vs-pulls consistency is still checked there",
    "a read that finds no delivered byte is what would block on a real socket; the harness turns it into an exception",
]


# ------------------------------------------------------------------------- write
@st.composite
def write_case(draw):
    integration = draw(st.sampled_from(["generic", "rdflib"]))
    phys = draw(st.sampled_from(["TRIPLES", "QUADS", "GRAPHS"]))
    arity = 3 if phys == "TRIPLES" else 4
    mode = "rdflib" if integration == "rdflib" else "gen"
    stmts = draw(gen.statement_seq(arity=arity, mode=mode, max_len=24, min_len=1))
    if phys == "GRAPHS":
        # 1..3 graphs, each a run of consecutive statements, driven through successive GraphStream.graph() calls
        k = draw(st.integers(1, 3))
        names = [stmts[0][3]] + [["iri", "http://ex.org/g%d" % i] for i in range(1, k)]
        per = max(1, len(stmts) // k)
        stmts = [[*s[:3], names[min(i // per, k - 1)]] for i, s in enumerate(stmts)]
        entry = "graph"
    else:
        entry = draw(st.sampled_from(["flat_stream_to_frames", "stream_frames", "flat_stream_to_file"]))
    if integration == "generic" and draw(st.integers(0, 3)) == 0:
        # "fat" statements: quoted triples whose IRIs are all new (fresh namespace and name each), so that one statement
        # contributes 10..30 rows - more than any fixed small per-statement estimate
        fat = []
        for i in range(len(stmts)):
            def fresh(tag, i=i):
                return ["iri", "http://ns%d%s.example.org/%s%d" % (i, tag, tag, i)]
            def q(a, b, c):
                return ["triple", fresh(a), fresh(b), fresh(c)]
            shape = draw(st.integers(0, 2))
            if shape == 0:
                st3 = [q("a", "b", "c"), fresh("d"), q("e", "f", "g")]
            elif shape == 1:
                st3 = [["triple", q("a", "b", "c"), fresh("d"), fresh("e")], fresh("f"), q("g", "h", "i")]
            else:
                st3 = [fresh("a"), fresh("b"), ["lit", "v%d" % i, None, None]]
            fat.append(st3 + stmts[i][3:])
        stmts = fat
    how = draw(st.sampled_from(["flat_logical", "explicit_flow", "unspecified_logical"]))
    if entry in ("flat_stream_to_frames", "flat_stream_to_file") and how == "explicit_flow" and draw(st.booleans()):
        how = "flat_logical"
    flat = 1 if phys == "TRIPLES" else 2
    case = {"kind": "write", "integration": integration, "phys": phys, "entry": entry, "how": how,
            "frame_size": draw(st.sampled_from([1, 2, 3, 4, 5, 7, 11, 16, 40])), "statements": stmts, "delimited": True,
            "preset": draw(gen.preset_for(stmts)),
            # (the remaining stream parameters vary too: a frame size must survive whatever else the options say)
            "params": {"generalized": integration == "generic", "rdf_star": integration == "generic",
                       "stream_name": draw(st.sampled_from(["", "", "name"])), "namespace_declarations": draw(st.booleans())}}
    case["output"] = draw(st.sampled_from(["bytesio", "raw"]))
    case["logical"] = 0 if how == "unspecified_logical" else flat
    if how == "explicit_flow":
        case["flow"] = "FlatTriplesFrameFlow" if phys == "TRIPLES" else "FlatQuadsFrameFlow"
    return case


class Capture:
    """Collects the Stream objects created while active (harness-side wrapper, no repository hook)."""

    def __enter__(self):
        from pyjelly.serialize import streams

        self.streams = []
        self._orig = streams.Stream.__init__
        cap = self

        def init(this, *a, **k):
            cap._orig(this, *a, **k)
            cap.streams.append(this)

        streams.Stream.__init__ = init
        return self

    def __exit__(self, *exc):
        from pyjelly.serialize import streams

        streams.Stream.__init__ = self._orig


class RecordingRaw(io.RawIOBase):
    """The caller's unbuffered output (a raw file, a socket): takes everything it is handed, remembers it."""

    def __init__(self):
        super().__init__()
        self.got = bytearray()

    def writable(self):
        return True

    def write(self, b):
        self.got += bytes(b)
        return len(b)

    def getvalue(self):
        return bytes(self.got)


def body_write_to_file(case, acc):
    """flat_stream_to_file: what has reached the caller's output when statement i is asked for. Every statement not yet
    delivered holds at least one row in some buffer, so fewer than frame_size statements may be outstanding."""
    integ = case["integration"]
    stmts = case["statements"]
    objs = pyj.conv_stmts(stmts, integ)
    fs = case["frame_size"]
    out = RecordingRaw() if case.get("output") == "raw" else io.BytesIO()
    delivered_at_pull = []

    def source():
        for o in objs:
            delivered_at_pull.append(out.getvalue())
            yield o

    if integ == "generic":
        from pyjelly.integrations.generic import serialize as ser
    else:
        from pyjelly.integrations.rdflib import serialize as ser
    try:
        ser.flat_stream_to_file(source(), out, options=pyj.make_options(case))
    except Exception as exc:  # noqa: BLE001
        return Violation(f"C11:write-raises:{type(exc).__name__}", f"flat_stream_to_file raised {exc!r}", case)
    conv = (lambda t: T.norm(t)) if integ == "generic" else (lambda t: T.norm(T.rdflib_canon(t)))
    want = [[list(conv(t)) for t in s_] for s_ in stmts]
    res = jellyref.decode(out.getvalue(), True, "strict")
    if res.error is not None or [[list(T.norm(t)) for t in s_] for s_ in res.statements] != want:
        return Violation("C11:write-final-differs", f"complete output does not decode to the input ({res.error})", case)
    if acc is not None:
        n_frames = len(res.frame_events)
        acc.case(case, n_frames >= 3, ["how_" + case["how"], "entry_flat_stream_to_file", "integration_" + integ,
                                        "phys_" + case["phys"], "output_" + str(case.get("output"))]
                 + (["frames_ge_3"] if n_frames >= 3 else []))
    for i, data in enumerate(delivered_at_pull, 1):
        if i < 2:
            continue
        got = []
        if data:
            pre = jellyref.decode(data, True, "prefix")
            if pre.error is not None:
                return Violation("C11:write-invalid-prefix", f"bytes delivered before pull {i} are not decodable: {pre.error}", case)
            got = [[list(T.norm(t)) for t in s_] for s_ in pre.statements]
        if got != want[:len(got)]:
            return Violation("C11:write-frame-out-of-step", f"bytes delivered before pull {i} are not a prefix of the input", case)
        if (i - 1) - len(got) >= fs:
            return Violation("C11:write-unbounded-buffering", f"asking for statement {i} while only {len(got)} of the {i - 1} "
                             f"statements handed over have reached the output ({case.get('output')}), frame_size={fs} "
                             f"(how={case['how']}, entry=flat_stream_to_file)", case)
    return None


def body_write(case, acc):
    if case["entry"] == "flat_stream_to_file":
        return body_write_to_file(case, acc)
    integ = case["integration"]
    stmts = case["statements"]
    objs = pyj.conv_stmts(stmts, integ)
    fs = case["frame_size"]
    events = []
    holder = {}

    def pending():
        s = holder.get("stream")
        return len(s.flow) if s is not None else None

    counter = {"n": 0}

    def source(items):
        for k, o in enumerate(items):
            counter["n"] += 1
            # the first pull of every graph() call happens right after that call appended its graph-start rows;
            # like the very first statement it is exempt from the bound (the bound is checked after each statement)
            events.append(("pull", counter["n"] if k else 1, pending()))
            yield o

    if integ == "generic":
        from pyjelly.integrations.generic import serialize as ser
    else:
        from pyjelly.integrations.rdflib import serialize as ser
    out = io.BytesIO()
    from pyjelly.serialize.ioutils import write_delimited

    def expected(upto):
        if integ == "generic":
            return [[list(T.norm(t)) for t in s] for s in stmts[:upto]]
        return [[list(T.norm(T.rdflib_canon(t))) for t in s] for s in stmts[:upto]]

    frames_seen = 0
    max_rows_stmt = 0
    try:
        with Capture() as cap:
            if case["entry"] == "flat_stream_to_frames":
                it = ser.flat_stream_to_frames(source(objs), pyj.make_options(case))
            elif case["entry"] == "stream_frames":
                stream = pyj.make_stream(case, integ)
                holder["stream"] = stream
                it = ser.stream_frames(stream, source(objs))
            else:
                stream = pyj.make_stream(case, integ)
                holder["stream"] = stream
                stream.enroll()

                def graphs():
                    i = 0
                    while i < len(objs):
                        j = i
                        while j < len(objs) and stmts[j][3] == stmts[i][3]:
                            j += 1
                        yield from stream.graph(objs[i][3], source([o[:3] for o in objs[i:j]]))
                        i = j
                it = graphs()
            for frame in it:
                if "stream" not in holder and cap.streams:
                    holder["stream"] = cap.streams[-1]
                frames_seen += 1
                write_delimited(frame, out)
                pulls = sum(1 for e in events if e[0] == "pull")
                events.append(("frame", frames_seen, len(frame.rows)))
                res = jellyref.decode(out.getvalue(), True, "prefix")
                if res.error is not None:
                    return Violation("C11:write-invalid-prefix", f"frames 1..{frames_seen} are not decodable: {res.error}", case)
                got = [[list(T.norm(t)) for t in s] for s in res.statements]
                if got != expected(pulls):
                    return Violation("C11:write-frame-out-of-step", f"when frame {frames_seen} was handed over {pulls} statements "
                                     f"had been pulled but frames 1..{frames_seen} hold {len(got)} statements "
                                     f"(frame_size={fs}, how={case['how']})", case)
            if "stream" not in holder and cap.streams:
                holder["stream"] = cap.streams[-1]
    except Exception as exc:  # noqa: BLE001
        return Violation(f"C11:write-raises:{type(exc).__name__}", f"{case['entry']} raised {exc!r}", case)
    if case["entry"] == "graph":
        # graph() leaves the end row and the tail in the flow for the caller's final flush
        tail = holder["stream"].flow.to_stream_frame()
        if tail is not None:
            write_delimited(tail, out)
    res = jellyref.decode(out.getvalue(), True, "strict")
    if res.error is not None or [[list(T.norm(t)) for t in s] for s in res.statements] != expected(len(stmts)):
        return Violation("C11:write-final-differs", f"complete output does not decode to the input ({res.error})", case)
    for a in res.audit:
        pass
    # invariant on pending rows at pulls i >= 2
    for kind, i, pend in [e for e in events if e[0] == "pull"]:
        if i >= 2 and pend is not None and pend >= fs:
            return Violation("C11:write-unbounded-buffering", f"asking for statement {i} with {pend} rows pending, frame_size={fs} "
                             f"(how={case['how']}, entry={case['entry']})", case)
    if acc is not None:
        n_frames = len(res.frame_events)
        rows_per_stmt = 1
        acc.case(case, n_frames >= 3, ["how_" + case["how"], "entry_" + case["entry"], "integration_" + integ,
                                        "phys_" + case["phys"]] + (["frames_ge_3"] if n_frames >= 3 else []))
    return None


# ------------------------------------------------------------------------- parse
@st.composite
def parse_case(draw):
    return {"kind": "parse", "src": draw(scen.stream_source(max_len=8, delimited=True)),
            "schedule": draw(st.sampled_from([[1], [2], [3, 1], [7], [4096]]))}


def body_parse(case, acc):
    data, delimited, rdflib_ok = scen.source_bytes(case["src"])
    if not data or not delimited:
        return None
    ref = jellyref.decode(data, True, "strict")
    if ref.error is not None:
        if case["src"]["source"] == "pyjelly":
            # pyjelly wrote a stream the reference decoder rejects: C03's subject; nothing to cut / stall here
            if acc is not None:
                acc.count("source_stream_invalid_skipped")
            return None
        raise HarnessError(f"source stream invalid: {ref.error}")
    ends = wire.frame_end_offsets(data)
    only_j = case.get("j")
    from vlib.harness import case_hash

    sh = case_hash(case["src"]) if acc is not None else None
    for j, end in enumerate(ends):
        if only_j is not None and j != only_j:
            continue
        want_events = [e for fe in ref.frame_events[:j + 1] for e in fe]
        last = end == len(data)
        if acc is not None:
            acc.case({"stream": sh, "j": j, "frames": len(ends)}, len(ends) >= 3 and not last, ["stall_after_interior_frame" if not last else "stall_at_end"])
        for integ in ["generic"] + (["rdflib"] if rdflib_ok else []):
            want = scen.norm_any(want_events if integ == "generic" else
                                 want_events)
            for wrap in ("raw", "buffered"):
                raw = iosim.DribbleRaw(data, case["schedule"], limit=end, stall=not last)
                source = raw if wrap == "raw" else io.BufferedReader(raw)
                items, exc = pyj.parse_flat_partial(None, integ, source=source)
                items = scen.norm_any(items)
                if exc is not None and not isinstance(exc, iosim.Stall):
                    return Violation(f"C11:parse-raises:{type(exc).__name__}", f"{integ}/{wrap}: frames 1..{j + 1} delivered, parser "
                                     f"raised {exc!r}", {**case, "j": j})
                if items != want:
                    return Violation(f"C11:parse-needs-read-ahead:{wrap}", f"{integ}/{wrap} source, schedule {case['schedule']}: frames "
                                     f"1..{j + 1} of {len(ends)} delivered ({len(want)} events) but only {len(items)} were yielded "
                                     f"before the parser asked for undelivered bytes", {**case, "j": j})
        # grouped, generic
        for wrap in ("raw", "buffered"):
            raw = iosim.DribbleRaw(data, case["schedule"], limit=end, stall=not last)
            source = raw if wrap == "raw" else io.BufferedReader(raw)
            sinks = []
            try:
                from pyjelly.integrations.generic.parse import parse_jelly_grouped

                for sink in parse_jelly_grouped(source):
                    sinks.append(scen.norm_any(pyj.sink_events(sink, "generic")))
            except iosim.Stall:
                pass
            except Exception as exc:  # noqa: BLE001
                return Violation(f"C11:parse-raises:{type(exc).__name__}", f"grouped/{wrap}: raised {exc!r}", {**case, "j": j})
            want_sinks = [scen.norm_any([e for e in fe if e[0] != "prefix"]) for fe in ref.frame_events[:j + 1]]
            have_options = any(fe or any(a["frame"] == k for a in ref.audit) for k, fe in enumerate(ref.frame_events[:j + 1]))
            if sinks != want_sinks and not (not sinks and not any(a["frame"] <= j for a in ref.audit)):
                return Violation(f"C11:grouped-needs-read-ahead:{wrap}", f"grouped/{wrap}: frames 1..{j + 1} delivered but "
                                 f"{len(sinks)} sinks yielded instead of {len(want_sinks)}", {**case, "j": j})
    return None


def body(case, acc):
    return body_write(case, acc) if case["kind"] == "write" else body_parse(case, acc)


def check_case(case):
    return body(case, None)


def run_shard(spec) -> Acc:
    acc = Acc()
    acc.MAX_SAMPLES = 2
    strat = write_case() if spec["part"] == "write" else parse_case()
    hyp_search(strat, body, acc, seed=spec["seed"] * 1000 + spec["shard"], max_examples=spec["n"], known=set(spec["known"]))
    return acc


def plan(tier, seed):
    nw, np_ = (200, 60) if tier == "quick" else (6000, 1500)
    return ([{"part": "write", "shard": i, "n": nw} for i in range(8)]
            + [{"part": "parse", "shard": 100 + i, "n": np_} for i in range(8)])
