"""C01 - generic API round trip is lossless and order-preserving."""
from __future__ import annotations

from vlib import env  # noqa: F401
from vlib import scen
from vlib.harness import Acc, Violation, hyp_search

ID = "C01"
LEVEL = "exploration"
RULE = (
    "Hypothesis: statement sequences over a small drawn term pool (IRIs incl. no-separator/empty/non-ASCII/NUL, "
    "bnodes, plain/lang/typed literals incl. xsd:string, nested quoted triples, generalized positions) x physical "
    "type x entry point (stream_frames from generator / sink, flat_stream_to_file, grouped_stream_to_file, "
    "sink.serialize) x preset on the boundaries (names max(8,k), +1; prefixes 0, k, k+1; datatypes likewise; k = IRI / "
    "datatype occurrences of the largest statement) x frame sizes 1..250 x delimited / non-delimited flat x reader "
    "(parse_jelly_flat, parse_jelly_to_graph, sink.parse). Oracle: parsed sequence == input sequence term by term. "
    "Plus a bounded-exhaustive sweep: all sequences of <= 2 (quick) / <= 3 (thorough) statements over a 3-IRI / 2-literal "
    "alphabet x presets {8/0/1, 8/3/1, 8/4/2} x frame sizes {1, 250}; and eight fixed streams of 700..4600 statements that fill "
    "and recycle tables of 128/32/32, 4000/150/32, 4096/150/32 and 4096/4096/4096 entries. "
    "non-trivial = >=2 statements and (eviction seen by the reference decoder's audit, or an elided term, or >=2 "
    "frames, or a quoted triple, or a generalized position); distinct by case hash."
)
ASSUMPTIONS = [
    "literals with both language and datatype, empty language tag, empty datatype IRI are not RDF terms (excluded)",
    "strings are valid Unicode without lone surrogates (protobuf cannot carry them)",
    "frame_size is put in force through an explicit FLAT logical type (UNSPECIFIED is C11's subject)",
]


def body(case, acc):
    try:
        data, delimited = scen.write_generic(case)
    except Exception as exc:  # noqa: BLE001
        return Violation(f"C01:write-raises:{type(exc).__name__}", f"serialisation raised {exc!r}", case)
    if acc is not None:
        labels, nt = scen.features(case, data, delimited)
        acc.case(case, nt, labels)
    want = scen.expected_generic(case)
    try:
        got = scen.normalize_events(scen.read_generic(data, case["reader"]))
    except Exception as exc:  # noqa: BLE001
        if not case["statements"] and not data:
            return None  # nothing written for an empty input: nothing to read back
        return Violation(f"C01:read-raises:{type(exc).__name__}", f"parsing own output raised {exc!r}", case)
    if got != want:
        if len(got) != len(want):
            return Violation("C01:length-differs", f"wrote {len(want)} statements, read {len(got)}", case)
        i = next(i for i, (a, b) in enumerate(zip(got, want)) if a != b)
        return Violation("C01:statement-differs", f"statement {i}: wrote {want[i]!r}, read {got[i]!r}", case)
    return None


def check_case(case):
    if "big_index" in case:
        return body(list(big_cases())[case["big_index"]], None)
    return body(case, None)


SWEEP_S = [["iri", "http://ex.org/a"], ["iri", "http://ex.org/b#c"], ["iri", "x"]]
SWEEP_P = [["iri", "http://ex.org/a"], ["iri", "http://ex.org/b#c"]]
SWEEP_O = [["iri", "http://ex.org/a"], ["iri", "x"], ["lit", "v", None, None],
           ["lit", "1", None, "http://www.w3.org/2001/XMLSchema#integer"]]
SWEEP_PRESETS = [[8, 0, 1], [8, 3, 1], [8, 4, 2]]


def sweep_cases(max_len):
    """Bounded-exhaustive: all sequences of <= max_len statements over a 3-IRI / 2-literal alphabet x presets x frame sizes."""
    import itertools

    stmts = [[s, p, o] for s in SWEEP_S for p in SWEEP_P for o in SWEEP_O]
    for n in range(1, max_len + 1):
        for seq in itertools.product(stmts, repeat=n):
            for preset in SWEEP_PRESETS:
                for fs in (1, 250):
                    yield {"integration": "generic", "entry": "stream_frames_gen", "phys": "TRIPLES", "logical": 1,
                           "delimited": True, "frame_size": fs, "preset": preset,
                           "params": {"generalized": True, "rdf_star": True, "stream_name": ""},
                           "statements": [list(x) for x in seq], "reader": "flat"}


def run_sweep(spec) -> Acc:
    acc = Acc()
    known = set(spec["known"])
    seen = set()
    for i, case in enumerate(sweep_cases(spec["max_len"])):
        if i % spec["of"] != spec["idx"]:
            continue
        v = body(case, acc)
        if v is not None:
            if v.signature in known:
                acc.known_hits[v.signature] += 1
            elif v.signature not in seen:
                seen.add(v.signature)
                acc.violations.append(v.to_json())
    acc.extra["sweep_cases"] = acc.evaluations
    acc.extra["sweep_max_len"] = spec["max_len"]
    return acc


def big_cases():
    """Streams large enough to fill and recycle default-sized tables (ids up to 4096 / 150 / 32 on the wire)."""
    for names, prefixes, dts, n in ((4096, 150, 32, 4600), (4000, 150, 32, 4300), (128, 32, 32, 700), (4096, 4096, 4096, 4400)):
        stmts = []
        for i in range(n):
            s_ = ["iri", "http://ns%d.example/%s" % (i % (prefixes + 7), "n%d" % (i * 7 % (names + 300)))]
            p_ = ["iri", "http://ex.org/p/%d" % (i % 5)]
            o_ = ["lit", str(i), None, "http://ex.org/dt/%d" % (i % (dts + 3))] if i % 3 == 0 else ["iri", "http://ex.org/o#%d" % (i % (names + 1))]
            stmts.append([s_, p_, o_])
        for phys in ("TRIPLES", "QUADS"):
            st2 = stmts if phys == "TRIPLES" else [[*x, ["iri", "http://g.example/%d" % (k % 9)]] for k, x in enumerate(stmts)]
            yield {"integration": "generic", "entry": "stream_frames_gen", "phys": phys, "logical": 1 if phys == "TRIPLES" else 2,
                   "delimited": True, "frame_size": 250, "preset": [names, prefixes, dts],
                   "params": {"generalized": True, "rdf_star": True, "stream_name": ""}, "statements": st2, "reader": "flat",
                   "big": True}


def run_big(spec) -> Acc:
    acc = Acc()
    acc.MAX_SAMPLES = 0
    known = set(spec["known"])
    for i, case in enumerate(big_cases()):
        if i % spec["of"] != spec["idx"]:
            continue
        v = body(case, None)
        acc.evaluations += 1
        acc.counters["big_stream_cases"] += 1
        acc.nontrivial.add("big%d" % i)
        if v is not None:
            v.case = {"big_index": i}
            if v.signature in known:
                acc.known_hits[v.signature] += 1
            else:
                acc.violations.append(v.to_json())
    return acc


def run_shard(spec) -> Acc:
    if spec.get("part") == "big":
        return run_big(spec)
    if spec.get("part") == "sweep":
        return run_sweep(spec)
    acc = Acc()
    hyp_search(scen.generic_write_case(max_len=spec.get("max_len", 14)), body, acc,
               seed=spec["seed"] * 1000 + spec["shard"], max_examples=spec["n"], known=set(spec["known"]))
    return acc


def plan(tier, seed):
    n = 500 if tier == "quick" else 6000
    specs = [{"shard": i, "n": n, "max_len": 14 if tier == "quick" else 40} for i in range(16)]
    k = 4 if tier == "quick" else 16
    specs += [{"part": "sweep", "idx": i, "of": k, "max_len": 2 if tier == "quick" else 3} for i in range(k)]
    specs += [{"part": "big", "idx": i, "of": 4} for i in range(4)]
    return specs
