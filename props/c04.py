"""C04 - every valid Jelly stream decodes to exactly the statements it encodes."""
from __future__ import annotations

from vlib import env  # noqa: F401
from vlib import jellyenc, jellyref, pyj, scen
from vlib import terms as T
from vlib.env import HarnessError
from vlib.harness import Acc, Violation, hyp_search

ID = "C04"
LEVEL = "exploration"
RULE = (
    "Hypothesis: ground-truth statements (+ namespace declarations) -> reference encoder E whose every legal choice is "
    "drawn from a choice tape (IRI split anywhere, arbitrary slot / eviction, explicit id vs 0, early and redundant "
    "entries, un-elided repeats, repeated options rows, graph splitting, frame partition with empty frames, "
    "delimited or single frame), over all physical types, name tables 8..4096, prefix/datatype tables 0..4096, "
    "versions 1-2. E's output is first validated by the reference decoder R (R(E(x)) == x, else harness error). "
    "Oracle: parse_jelly_flat, parse_jelly_grouped (concatenated) and parse_jelly_to_graph of the generic integration "
    "(and of rdflib for RDF 1.1-only cases) return exactly the ground truth, in order (sets for rdflib containers), also "
    "when two flat parsers (this stream and the previous case's) are consumed in lock-step. "
    "Plus an atheris coverage-guided differential campaign (structure-aware mutator, corpus seeded from E and pyjelly): any "
    "bytes R classifies as a valid stream must be parsed to exactly R's events. "
    "non-trivial = the stream shows >=2 producer behaviours pyjelly's own writer never shows (counted from E's "
    "choice log); distinct by case hash."
)
ASSUMPTIONS = [
    "E and R are my reading of the spec (DESIGN.md appendix A)",
    "rdflib ground truth is the rdflib-constructed term (lexical normalisation is rdflib's)",
]


def norm_events(evs):
    out = []
    for e in evs:
        if e[0] == "prefix":
            out.append(["prefix", e[1], list(e[2])])
        elif e[0] == "BAD":
            out.append(e)
        else:
            out.append([list(T.norm(t)) if t[0] != "BAD" else t for t in e])
    return out


def rdflib_truth(truth):
    out = []
    for e in truth:
        if e[0] == "prefix":
            out.append(["prefix", e[1], list(e[2])])
        else:
            # the rdflib adapter delivers lexical forms exactly as they are on the wire (no re-normalisation)
            out.append([list(T.norm(t)) for t in e])
    return out


def first_diff(got, want):
    if len(got) != len(want):
        return f"{len(got)} events instead of {len(want)}"
    for i, (a, b) in enumerate(zip(got, want)):
        if a != b:
            return f"event {i}: got {a!r}, stream denotes {b!r}"
    return "?"


_PREVIOUS = {}


def lockstep(data, truth, case):
    """Two parsers alive at once: this stream and the previous case's stream are consumed in lock-step (zip); each must
    still return what its own stream denotes."""
    import io as _io

    from pyjelly.integrations.generic.parse import parse_jelly_flat

    prev = _PREVIOUS.get("data")
    _PREVIOUS["data"], _PREVIOUS["truth"] = data, truth
    if prev is None:
        return None
    a, b = parse_jelly_flat(_io.BytesIO(data)), parse_jelly_flat(_io.BytesIO(prev))
    got_a, got_b = [], []
    done_a = done_b = False
    try:
        while not (done_a and done_b):
            if not done_a:
                try:
                    got_a.append(T.from_generic_stmt(next(a)))
                except StopIteration:
                    done_a = True
            if not done_b:
                try:
                    got_b.append(T.from_generic_stmt(next(b)))
                except StopIteration:
                    done_b = True
    except Exception as exc:  # noqa: BLE001
        return Violation(f"C04:lockstep-raises:{type(exc).__name__}", f"two parsers consumed in lock-step: {exc!r}", {**case, "previous_hex": prev.hex()})
    if norm_events(got_a) != truth:
        return Violation("C04:lockstep-differs", f"parsed side by side with another stream: {first_diff(norm_events(got_a), truth)}",
                         {**case, "previous_hex": prev.hex()})
    return None


def body(case, acc):
    try:
        out = jellyenc.encode_case(case)
    except jellyenc.CannotEncode as exc:
        raise HarnessError(f"generator produced an unencodable case: {exc}") from exc
    data, delimited = out["bytes"], out["delimited"]
    res = jellyref.decode(data, delimited, mode="strict")
    truth = norm_events(out["truth"])
    if res.error is not None or norm_events(res.events) != truth:
        raise HarnessError(f"R(E(x)) != x: {res.error} case={case!r}")
    if acc is not None:
        exotic = [k for k in scen.EXOTIC if out["log"].get(k)]
        labels = list(out["log"].keys()) + ["phys_" + case["phys"], "delimited" if delimited else "non_delimited"]
        if case["namespaces"]:
            labels.append("namespaces")
        acc.case(case, len(exotic) >= 2 and len(case["statements"]) >= 1, labels)

    if case.get("previous_hex"):
        _PREVIOUS["data"] = bytes.fromhex(case["previous_hex"])
    v = lockstep(data, truth, {k: v_ for k, v_ in case.items() if k != "previous_hex"})
    if v is not None:
        return v
    integrations = ["generic"] + (["rdflib"] if case["mode"] == "rdflib" else [])
    for integ in integrations:
        want = truth if integ == "generic" else rdflib_truth(out["truth"])
        # flat
        try:
            got = norm_events(pyj.parse_flat(data, integ))
        except Exception as exc:  # noqa: BLE001
            return Violation(f"C04:flat-raises:{type(exc).__name__}", f"{integ} parse_jelly_flat raised {exc!r} on a valid stream", case)
        if got != want:
            return Violation("C04:flat-differs", f"{integ} parse_jelly_flat: {first_diff(got, want)}", case)
        # grouped, concatenated
        try:
            frames = pyj.parse_grouped(data, integ)
        except Exception as exc:  # noqa: BLE001
            return Violation(f"C04:grouped-raises:{type(exc).__name__}", f"{integ} parse_jelly_grouped raised {exc!r}", case)
        want_stmts = [e for e in want if e[0] != "prefix"]
        if integ == "generic":
            got = norm_events([s for f in frames for s in f])
            if got != want_stmts:
                return Violation("C04:grouped-differs", f"generic parse_jelly_grouped: {first_diff(got, want_stmts)}", case)
        else:
            gs = {T.norm_stmt(s) for f in frames for s in f}
            ws = {tuple(tuple(t) for t in s) for s in want_stmts}
            if gs != ws:
                return Violation("C04:grouped-differs", f"rdflib parse_jelly_grouped: missing {sorted(ws - gs, key=repr)[:2]!r} "
                                 f"extra {sorted(gs - ws, key=repr)[:2]!r}", case)
        # to graph
        try:
            sink = pyj.parse_to_graph(data, integ)
        except Exception as exc:  # noqa: BLE001
            return Violation(f"C04:to-graph-raises:{type(exc).__name__}", f"{integ} parse_jelly_to_graph raised {exc!r}", case)
        if integ == "generic":
            got = norm_events(pyj.sink_events(sink, integ))
            if got != want_stmts:
                return Violation("C04:to-graph-differs", f"generic parse_jelly_to_graph: {first_diff(got, want_stmts)}", case)
            nsmap = {}
            for e in want:
                if e[0] == "prefix":
                    nsmap[e[1]] = e[2]
            gotns = {p: i for p, i in pyj.sink_namespaces(sink, integ)}
            if gotns != nsmap:
                return Violation("C04:to-graph-namespaces-differ", f"sink.namespaces {gotns!r} != declared {nsmap!r}", case)
        else:
            gs = {T.norm_stmt(s) for s in pyj.sink_events(sink, integ)}
            ws = {tuple(tuple(t) for t in s) for s in want_stmts}
            if gs != ws:
                return Violation("C04:to-graph-differs", f"rdflib parse_jelly_to_graph: missing {sorted(ws - gs, key=repr)[:2]!r} "
                                 f"extra {sorted(gs - ws, key=repr)[:2]!r}", case)
    return None


def check_case(case):
    if case.get("kind") == "bytes":
        from vlib import diffcheck

        v, _ = diffcheck.check_bytes(bytes.fromhex(case["hex"]), assert_on=("valid",))
        return v
    return body(case, None)


def run_shard(spec) -> Acc:
    acc = Acc()
    if spec.get("part") == "atheris_diff":
        from vlib import diffcheck

        diffcheck.run_campaign(spec, acc, "C04:", "valid")
        return acc
    hyp_search(scen.e_case(max_len=spec.get("max_len", 12)), body, acc, seed=spec["seed"] * 1000 + spec["shard"],
               max_examples=spec["n"], known=set(spec["known"]))
    return acc


def plan(tier, seed):
    n = 400 if tier == "quick" else 5000
    specs = [{"shard": i, "n": n, "max_len": 12 if tier == "quick" else 30} for i in range(14)]
    # coverage-guided differential campaign: bytes the reference decoder calls valid must parse to its events
    runs = 20000 if tier == "quick" else 2500000
    specs += [{"part": "atheris_diff", "shard": 200 + i, "runs": runs, "wall": 200 if tier == "quick" else 1500} for i in range(2)]
    return specs
