"""C03 - every emitted stream is valid Jelly for an independent decoder."""
from __future__ import annotations

from hypothesis import strategies as st

from vlib import env  # noqa: F401
from vlib import jellyref, scen
from vlib import terms as T
from vlib.harness import Acc, Violation, hyp_search

ID = "C03"
LEVEL = "exploration"
RULE = (
    "Hypothesis: the write cases of C01 (generic, all entry points, three physical types) and C02 (rdflib containers "
    "and statement generators, flat and grouped logical types), plus namespace declarations on/off. Oracle: the "
    "reference decoder R (own wire codec + spec state machine, no pyjelly / protobuf code) accepts the bytes in strict "
    "mode - options first and unchanged, ids within table size, references to defined slots, zero-delta rules, complete "
    "first statement and quoted triples, row kinds vs physical type, graph bracketing, namespace rows only with version 2 - "
    "and R's decoding equals the input (sequence for statement sequences, set for rdflib containers). "
    "Plus a sweep of frame lengths across the varint boundaries of the length prefix (frames of ~100..170, ~16290..16560 and "
    "~2^21 bytes). Plus a Hypothesis rule-based state machine over the public Stream API (enroll / triple / quad / graph with 0..3 triples / "
    "namespace_declaration / manual flush of the flow / a statement the encoder rejects, after which the caller carries on; "
    "inferred, manual and bounded flows, both term encoders): after EVERY call "
    "the bytes written so far must be a valid prefix for R and decode to the events accepted so far. "
    "non-trivial = >=2 statements and the stream has an explicit non-zero entry id (post-eviction) or uses a zero form "
    "for prefix / name / entry id together with >=2 frames or an elision; distinct by case hash."
)
ASSUMPTIONS = [
    "R is my reading of the Jelly spec (DESIGN.md appendix A); clauses shared with pyjelly's reading: prefix id 0 before "
    "any prefix means 'no prefix'; name id 0 means previous + 1 (1 at the start)",
    "R does not check the generalized / RDF-star flags against content (the property does not state it)",
]


@st.composite
def case_strategy(draw):
    k = draw(st.integers(0, 4))
    if k <= 1:
        c = draw(scen.generic_write_case())
    elif k <= 3:
        c = draw(scen.rdflib_write_case())
    else:
        from props import c14

        c = draw(c14.ns_case())
        c["with_namespaces"] = True
    return c


def write(case):
    if case.get("with_namespaces"):
        from props import c14

        return c14.write(case, c14.build_source(case), True)
    if case["integration"] == "generic":
        return scen.write_generic(case)
    return scen.write_rdflib(case)


def body(case, acc):
    try:
        data, delimited = write(case)
    except Exception as exc:  # noqa: BLE001
        if case.get("with_namespaces") and "cannot hold all the entries" in str(exc):
            # the namespace scenarios include tables too small for a statement (C14/C18's subject): outside C03's domain
            if acc is not None:
                acc.case(case, False, ["refused_tiny_table"])
            return None
        return Violation(f"C03:write-raises:{type(exc).__name__}", f"serialisation raised {exc!r}", case)
    if not data and not case["statements"]:
        if acc is not None:
            acc.case(case, False, ["empty_output"])
        return None
    res = jellyref.decode(data, delimited, mode="strict")
    if acc is not None:
        labels, nt = scen.features(case, data, delimited)
        explicit = any(a.get("table") and a["raw_id"] != 0 for a in res.audit)
        zero_entry = any(a.get("table") and a["raw_id"] == 0 for a in res.audit)
        zero_iri = any(i["raw_prefix_id"] == 0 or i["raw_name_id"] == 0 for a in res.audit for i in a.get("iris", ()))
        if explicit:
            labels.append("explicit_entry_id")
        if zero_entry:
            labels.append("zero_entry_id")
        if zero_iri:
            labels.append("zero_iri_id")
        nt = len(case["statements"]) >= 2 and (explicit or ((zero_entry or zero_iri) and (
            "multi_frame" in labels or "elision" in labels)))
        acc.case(case, nt, labels + ["integration_" + case["integration"]])
    if res.error is not None:
        if isinstance(res.error, jellyref.Uncatalogued):
            kind = "uncatalogued-" + res.error.kind
        else:
            kind = res.error.kind
        return Violation(f"C03:invalid:{kind}", f"reference decoder rejects pyjelly output: {res.error}", case)
    got = [[list(T.norm(t)) for t in s] for s in res.statements]
    if case.get("with_namespaces"):
        from props import c14

        truth = [] if case["entry"] == "flat_generator" else c14.truth_of(c14.build_source(case), case["integration"])
        decl = [[e[1], list(e[2])] for e in res.prefixes]
        if decl != [[p, list(i)] for p, i in truth]:
            return Violation("C03:namespace-rows-differ", f"R reads declarations {decl!r}, source binds {truth!r}", case)
        if res.options.get("version") != 2:
            return Violation("C03:invalid:namespace-row-version", "namespace declarations enabled but version != 2", case)
        if case["integration"] == "generic" or case["entry"] == "flat_generator":
            conv = (lambda t: T.norm(t)) if case["integration"] == "generic" else (lambda t: T.norm(T.rdflib_canon(t)))
            want = [[list(conv(t)) for t in s] for s in case["statements"]]
            ok = got == want
        else:
            from vlib import pyj

            ws = {T.norm_stmt(s) for s in pyj.sink_events(c14.build_source(case), "rdflib")}
            ok = {T.norm_stmt(s) for s in res.statements} == ws
        if not ok:
            return Violation("C03:decodes-differently", "R decodes different statements (namespace case)", case)
        return None
    if case["integration"] == "generic" or case["entry"] in ("flat_to_file", "flat_to_file_default"):
        if case["integration"] == "generic":
            want = scen.expected_generic(case)
        else:
            want = [[list(T.norm(T.rdflib_canon(t))) for t in s] for s in case["statements"]]
        if got != want:
            return Violation("C03:decodes-differently", f"R decodes {got[:3]!r}..., input {want[:3]!r}...", case)
    else:
        want = scen.expected_rdflib(case)
        gs = {T.norm_stmt(s) for s in res.statements}
        if gs != want:
            return Violation("C03:decodes-differently", f"R decodes a different set: missing {sorted(want - gs, key=repr)[:2]!r} "
                             f"extra {sorted(gs - want, key=repr)[:2]!r}", case)
    if res.prefixes:
        return Violation("C03:unexpected-namespace-row", "namespace rows although the option is off", case)
    return None


def check_case(case):
    if case.get("kind") == "api":
        return replay_api_history(case)
    if case.get("literal_len") is not None and case.get("statements") is None:
        n = case["literal_len"]
        case = dict(case, statements=[[["iri", "http://ex.org/s"], ["iri", "http://ex.org/p"], ["lit", "L" * n, None, None]],
                                      [["iri", "http://ex.org/s"], ["iri", "http://ex.org/p"], ["lit", "tail", None, None]]])
        return body(case, None)
    if "big_index" in case:
        from props import c01

        return body(list(c01.big_cases())[case["big_index"]], None)
    return body(case, None)


def run_shard(spec) -> Acc:
    acc = Acc()
    if spec.get("part") == "api":
        machine_shard(spec, acc)
        return acc
    if spec.get("part") == "lengths":
        # frames whose serialized length sweeps across the varint boundaries of the length prefix (2^7, 2^14, 2^21)
        known = set(spec["known"])
        for n in spec["sizes"]:
            case = {"integration": "generic", "entry": "stream_frames_gen", "phys": "TRIPLES", "logical": 1, "delimited": True,
                    "frame_size": 250, "preset": [8, 4, 0], "params": {"generalized": True, "rdf_star": True, "stream_name": ""},
                    "statements": [[["iri", "http://ex.org/s"], ["iri", "http://ex.org/p"], ["lit", "L" * n, None, None]],
                                   [["iri", "http://ex.org/s"], ["iri", "http://ex.org/p"], ["lit", "tail", None, None]]],
                    "reader": "flat", "literal_len": n}
            v = body(case, None)
            acc.evaluations += 1
            acc.counters["frame_length_sweep_cases"] += 1
            acc.nontrivial.add("len%d" % n)
            if v is not None and v.signature not in known:
                v.case = {k: (val if k != "statements" else None) for k, val in case.items()}
                acc.violations.append(v.to_json())
                break
        return acc
    if spec.get("part") == "big":
        from props import c01

        for i, case in enumerate(c01.big_cases()):
            v = body(case, None)
            acc.evaluations += 1
            acc.counters["big_stream_cases"] += 1
            acc.nontrivial.add("big%d" % i)
            if v is not None and v.signature not in set(spec["known"]):
                v.case = {"big_index": i}
                acc.violations.append(v.to_json())
                break
        return acc
    hyp_search(case_strategy(), body, acc, seed=spec["seed"] * 1000 + spec["shard"],
               max_examples=spec["n"], known=set(spec["known"]))
    return acc


def plan(tier, seed):
    n = 400 if tier == "quick" else 6000
    specs = [{"shard": i, "n": n} for i in range(11)] + [{"part": "big", "shard": 400}]
    # literal lengths chosen so that the single frame is 100..160 and 16290..16560 bytes long, plus a few around 2^21
    sizes = list(range(40, 110)) + list(range(16230, 16500)) + ([2097000, 2097090, 2097100, 2097110, 2097200] if tier != "quick" else [2097100])
    specs += [{"part": "lengths", "shard": 500 + i, "sizes": sizes[i::2]} for i in range(2)]
    specs += [{"part": "api", "shard": 300 + i, "n": 120 if tier == "quick" else 3000, "steps": 12 if tier == "quick" else 30}
              for i in range(3)]
    return specs


# ------------------------------------------------------------- API-history state machine
MACHINE_IRIS = ["http://ex.org/a", "http://ex.org/b#c", "x", "http://ex.org/ns2/d", "urn:u:e", "", "http://ex.org/a/f",
                "http://ü.example/ł/g", "http://ex.org/ns3/h", "http://ex.org/ns4/i"]
MACHINE_LITS = [["lit", "v", None, None], ["lit", "1", None, "http://www.w3.org/2001/XMLSchema#integer"],
                ["lit", "hi", "en", None], ["lit", "", None, None], ["lit", "s", None, T.XSD_STRING]]
MACHINE_BN = [["bnode", "b0"], ["bnode", "b1"]]


def machine_term(code, graph=False):
    kind, i = code
    if kind == 0:
        return ["iri", MACHINE_IRIS[i % len(MACHINE_IRIS)]]
    if kind == 1:
        return MACHINE_BN[i % 2]
    if kind == 2 and graph:
        return ["default"]
    if kind == 2:
        return MACHINE_LITS[i % len(MACHINE_LITS)]
    return ["iri", MACHINE_IRIS[i % 3]]


def replay_api_history(case, acc=None):
    """Drive the public Stream API with a recorded history of calls; after every call the bytes written so far must be a
    valid prefix for the reference decoder and decode to the events accepted so far."""
    import io as _io

    from pyjelly.serialize.ioutils import write_delimited

    integ = case["integration"]
    cfg = {"phys": case["phys"], "logical": case["logical"], "delimited": True, "frame_size": case["frame_size"],
           "flow": case["flow"], "preset": case["preset"],
           "params": {"generalized": True, "rdf_star": True, "stream_name": "", "namespace_declarations": case["ns"]}}
    from vlib import pyj

    stream = pyj.make_stream(cfg, integ)
    out = _io.BytesIO()
    model = []
    conv = T.to_generic if integ == "generic" else T.to_rdflib
    canon = (lambda t: list(T.norm(t))) if integ == "generic" else (lambda t: list(T.norm(T.rdflib_canon(t))))
    flushed_all = True
    rejected = False

    def emit(f):
        if f is not None:
            write_delimited(f, out)

    for step, op in enumerate(case["ops"]):
        kind = op[0]
        try:
            if kind == "enroll":
                stream.enroll()
            elif kind == "stmt":
                stream.enroll()
                terms = [machine_term(c, graph=(j == 3)) for j, c in enumerate(op[1])]
                if integ == "rdflib":  # RDF 1.1 positions only
                    if terms[0][0] == "lit":
                        terms[0] = ["iri", MACHINE_IRIS[0]]
                    if terms[1][0] != "iri":
                        terms[1] = ["iri", MACHINE_IRIS[1]]
                    if len(terms) > 3 and terms[3] == ["iri", ""]:
                        terms[3] = ["default"]
                if case["phys"] == "TRIPLES":
                    emit(stream.triple(tuple(conv(t) for t in terms[:3])))
                    model.append([canon(t) for t in terms[:3]])
                elif case["phys"] == "QUADS":
                    emit(stream.quad(tuple(conv(t) for t in terms)))
                    model.append([canon(t) for t in terms])
                else:
                    n = op[2]
                    triples = [tuple(conv(t) for t in terms[:3])] * n
                    for f in stream.graph(conv(terms[3]), triples):
                        emit(f)
                    model.extend([[canon(t) for t in terms]] * n)
            elif kind == "ns":
                if case["ns"]:
                    stream.enroll()
                    iri = MACHINE_IRIS[op[2] % len(MACHINE_IRIS)]
                    stream.namespace_declaration(op[1], iri)
                    model.append(["prefix", op[1], ["iri", iri]])
            elif kind == "bad":
                # a statement the encoder must reject (unsupported Python object in slot op[1]); the caller carries on
                stream.enroll()
                terms = [machine_term(c, graph=(j == 3)) for j, c in enumerate(op[2])]
                if integ == "rdflib":
                    terms[0], terms[1] = ["iri", MACHINE_IRIS[0]], ["iri", MACHINE_IRIS[1]]
                objs = [conv(t) for t in terms]
                objs[op[1] % (3 if case["phys"] == "TRIPLES" else 4)] = object()
                try:
                    if case["phys"] == "TRIPLES":
                        emit(stream.triple(tuple(objs[:3])))
                    elif case["phys"] == "QUADS":
                        emit(stream.quad(tuple(objs)))
                    else:
                        for f in stream.graph(objs[3], [tuple(objs[:3])]):
                            emit(f)
                except Exception:  # noqa: BLE001
                    rejected = True
            elif kind == "flush":
                emit(stream.flow.to_stream_frame())
        except Exception as exc:  # noqa: BLE001
            if rejected and "cannot be used after" in str(exc):
                continue  # the stream refuses further use after a rejected statement: allowed
            return Violation(f"C03:api-call-raises:{type(exc).__name__}", f"step {step} {op!r} raised {exc!r}", case)
        data = out.getvalue()
        if not data:
            continue
        res = jellyref.decode(data, True, mode="lenient-brackets" if (rejected and case["phys"] == "GRAPHS") else "prefix")
        if res.error is not None:
            return Violation(f"C03:invalid:{res.error.kind}", f"after step {step} {op!r} the bytes written are invalid: {res.error}", case)
        got = []
        for e in res.events:
            got.append(["prefix", e[1], list(e[2])] if e[0] == "prefix" else [list(T.norm(t)) for t in e])
        if got != model[:len(got)]:
            return Violation("C03:decodes-differently", f"after step {step} {op!r}: R decodes {got[-1:]!r} where the accepted "
                             f"history has {model[len(got) - 1:len(got)]!r}", case)
        if kind == "flush" and len(stream.flow) == 0 and len(got) != len(model):
            return Violation("C03:decodes-differently", f"after a full flush {len(got)} events are on the wire, {len(model)} were accepted", case)
    if acc is not None:
        acc.case(case, len(model) >= 3 and any(o[0] == "flush" for o in case["ops"]), ["api_history", "api_" + case["phys"],
                                                                                         "api_flow_" + str(case["flow"])])
    return None


def machine_shard(spec, acc):
    import hypothesis
    from hypothesis import HealthCheck, Phase, settings
    from hypothesis.stateful import RuleBasedStateMachine, initialize, rule, run_state_machine_as_test

    from vlib.harness import shard_seed

    found = {}
    known = set(spec["known"])
    code = st.tuples(st.integers(0, 3), st.integers(0, 9))

    class Api(RuleBasedStateMachine):
        def __init__(self):
            super().__init__()
            self.case = None

        @initialize(integration=st.sampled_from(["generic", "rdflib"]), phys=st.sampled_from(["TRIPLES", "QUADS", "GRAPHS"]),
                    flow=st.sampled_from([None, "ManualFrameFlow:lt", "BoundedFrameFlow:lt"]),
                    fs=st.sampled_from([1, 2, 3, 5, 250]), ns=st.booleans(),
                    preset=st.sampled_from([[8, 0, 4], [8, 4, 4], [9, 5, 2], [16, 8, 8], [4000, 150, 32]]))
        def setup(self, integration, phys, flow, fs, ns, preset):
            self.case = {"kind": "api", "integration": integration, "phys": phys, "logical": 1 if phys == "TRIPLES" else 2,
                         "flow": flow, "frame_size": fs, "ns": ns, "preset": preset, "ops": []}

        def _do(self, op):
            self.case["ops"].append(op)
            v = replay_api_history(self.case)
            if v is not None and v.signature not in known:
                found["v"] = v
                raise v

        @rule(terms=st.lists(code, min_size=4, max_size=4), n=st.integers(0, 3))
        def statement(self, terms, n):
            self._do(["stmt", [list(t) for t in terms], n])

        @rule(name=st.sampled_from(["", "ex", "a"]), i=st.integers(0, 9))
        def namespace(self, name, i):
            self._do(["ns", name, i])

        @rule(slot=st.integers(0, 3), terms=st.lists(code, min_size=4, max_size=4))
        def rejected_statement(self, slot, terms):
            self._do(["bad", slot, [list(t) for t in terms]])

        @rule()
        def flush(self):
            self._do(["flush"])

        @rule()
        def enroll(self):
            self._do(["enroll"])

        def teardown(self):
            if self.case is not None and self.case["ops"]:
                replay_api_history(self.case, acc)

    sett = settings(max_examples=spec["n"], stateful_step_count=spec.get("steps", 12), deadline=None, database=None,
                    report_multiple_bugs=False, print_blob=False, phases=(Phase.generate, Phase.shrink),
                    suppress_health_check=list(HealthCheck))
    machine = hypothesis.seed(shard_seed(spec["seed"], spec["shard"], "api"))(Api)
    try:
        run_state_machine_as_test(machine, settings=sett)
    except Violation:
        pass
    except BaseException:
        if "v" not in found:
            raise
    if "v" in found:
        acc.violations.append(found["v"].to_json())
