"""C03 - every emitted stream is valid Jelly for an independent decoder."""
from __future__ import annotations

from hypothesis import strategies as st

from vlib import env  # noqa: F401
from vlib import jellyref, scen
from vlib import terms as T
from vlib.harness import Acc, Violation, hyp_search

ID = "C03"
LEVEL = "exploration"
RULE = (
    "Hypothesis: the write cases of C01 (generic, all entry points, three physical types) and C02 (rdflib containers "
    "and statement generators, flat and grouped logical types), plus namespace declarations on/off. Oracle: the "
    "reference decoder R (own wire codec + spec state machine, no pyjelly / protobuf code) accepts the bytes in strict "
    "mode - options first and unchanged, ids within table size, references to defined slots, zero-delta rules, complete "
    "first statement and quoted triples, row kinds vs physical type, graph bracketing, namespace rows only with version 2 - "
    "and R's decoding equals the input (sequence for statement sequences, set for rdflib containers). "
    "non-trivial = >=2 statements and the stream has an explicit non-zero entry id (post-eviction) or uses a zero form "
    "for prefix / name / entry id together with >=2 frames or an elision; distinct by case hash."
)
ASSUMPTIONS = [
    "R is my reading of the Jelly spec (DESIGN.md appendix A); clauses shared with pyjelly's reading: prefix id 0 before "
    "any prefix means 'no prefix'; name id 0 means previous + 1 (1 at the start)",
    "R does not check the generalized / RDF-star flags against content (the property does not state it)",
]


@st.composite
def case_strategy(draw):
    k = draw(st.integers(0, 4))
    if k <= 1:
        c = draw(scen.generic_write_case())
    elif k <= 3:
        c = draw(scen.rdflib_write_case())
    else:
        from props import c14

        c = draw(c14.ns_case())
        c["with_namespaces"] = True
    return c


def write(case):
    if case.get("with_namespaces"):
        from props import c14

        return c14.write(case, c14.build_source(case), True)
    if case["integration"] == "generic":
        return scen.write_generic(case)
    return scen.write_rdflib(case)


def body(case, acc):
    try:
        data, delimited = write(case)
    except Exception as exc:  # noqa: BLE001
        if case.get("with_namespaces") and "cannot hold all the entries" in str(exc):
            # the namespace scenarios include tables too small for a statement (C14/C18's subject): outside C03's domain
            if acc is not None:
                acc.case(case, False, ["refused_tiny_table"])
            return None
        return Violation(f"C03:write-raises:{type(exc).__name__}", f"serialisation raised {exc!r}", case)
    if not data and not case["statements"]:
        if acc is not None:
            acc.case(case, False, ["empty_output"])
        return None
    res = jellyref.decode(data, delimited, mode="strict")
    if acc is not None:
        labels, nt = scen.features(case, data, delimited)
        explicit = any(a.get("table") and a["raw_id"] != 0 for a in res.audit)
        zero_entry = any(a.get("table") and a["raw_id"] == 0 for a in res.audit)
        zero_iri = any(i["raw_prefix_id"] == 0 or i["raw_name_id"] == 0 for a in res.audit for i in a.get("iris", ()))
        if explicit:
            labels.append("explicit_entry_id")
        if zero_entry:
            labels.append("zero_entry_id")
        if zero_iri:
            labels.append("zero_iri_id")
        nt = len(case["statements"]) >= 2 and (explicit or ((zero_entry or zero_iri) and (
            "multi_frame" in labels or "elision" in labels)))
        acc.case(case, nt, labels + ["integration_" + case["integration"]])
    if res.error is not None:
        if isinstance(res.error, jellyref.Uncatalogued):
            kind = "uncatalogued-" + res.error.kind
        else:
            kind = res.error.kind
        return Violation(f"C03:invalid:{kind}", f"reference decoder rejects pyjelly output: {res.error}", case)
    got = [[list(T.norm(t)) for t in s] for s in res.statements]
    if case.get("with_namespaces"):
        from props import c14

        truth = [] if case["entry"] == "flat_generator" else c14.truth_of(c14.build_source(case), case["integration"])
        decl = [[e[1], list(e[2])] for e in res.prefixes]
        if decl != [[p, list(i)] for p, i in truth]:
            return Violation("C03:namespace-rows-differ", f"R reads declarations {decl!r}, source binds {truth!r}", case)
        if res.options.get("version") != 2:
            return Violation("C03:invalid:namespace-row-version", "namespace declarations enabled but version != 2", case)
        if case["integration"] == "generic" or case["entry"] == "flat_generator":
            conv = (lambda t: T.norm(t)) if case["integration"] == "generic" else (lambda t: T.norm(T.rdflib_canon(t)))
            want = [[list(conv(t)) for t in s] for s in case["statements"]]
            ok = got == want
        else:
            from vlib import pyj

            ws = {T.norm_stmt(s) for s in pyj.sink_events(c14.build_source(case), "rdflib")}
            ok = {T.norm_stmt(s) for s in res.statements} == ws
        if not ok:
            return Violation("C03:decodes-differently", "R decodes different statements (namespace case)", case)
        return None
    if case["integration"] == "generic" or case["entry"] == "flat_to_file":
        if case["integration"] == "generic":
            want = scen.expected_generic(case)
        else:
            want = [[list(T.norm(T.rdflib_canon(t))) for t in s] for s in case["statements"]]
        if got != want:
            return Violation("C03:decodes-differently", f"R decodes {got[:3]!r}..., input {want[:3]!r}...", case)
    else:
        want = scen.expected_rdflib(case)
        gs = {T.norm_stmt(s) for s in res.statements}
        if gs != want:
            return Violation("C03:decodes-differently", f"R decodes a different set: missing {sorted(want - gs, key=repr)[:2]!r} "
                             f"extra {sorted(gs - want, key=repr)[:2]!r}", case)
    if res.prefixes:
        return Violation("C03:unexpected-namespace-row", "namespace rows although the option is off", case)
    return None


def check_case(case):
    return body(case, None)


def run_shard(spec) -> Acc:
    acc = Acc()
    hyp_search(case_strategy(), body, acc, seed=spec["seed"] * 1000 + spec["shard"],
               max_examples=spec["n"], known=set(spec["known"]))
    return acc


def plan(tier, seed):
    n = 400 if tier == "quick" else 6000
    return [{"shard": i, "n": n} for i in range(16)]
