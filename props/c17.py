"""C17 - arbitrary bytes cannot crash, hang or balloon the parser."""
from __future__ import annotations

import glob
import io
import os
import resource
import shutil
import subprocess
import sys
import time

from hypothesis import strategies as st

from vlib import env  # noqa: F401
from vlib import iosim, jellyenc, scen, wire
from vlib.harness import Acc, Violation, draw_examples

ID = "C17"
LEVEL = "exploration"
PROCS = 16
RULE = (
    "Inputs (Hypothesis-generated under VERIF_SEED): (a) st.binary() 0..4 KiB; (b) valid streams (pyjelly- and "
    "reference-encoder-written) with bit flips, byte inserts / deletes, splices of two streams, truncations, duplicated "
    "frames; (c) structure-aware hostile streams built with my wire codec: declared table sizes 4097..2^32-1, frame / row / "
    "string lengths up to 2^62, quoted triples nested 1..300, options rows in odd places, 10^4 empty frames, ids 2^32-1, "
    "invalid UTF-8, over-long varints, short typed literals that declare huge magnitudes (1E+200000000 and the like; alone, and repeated by following statements through omitted slots), two pairs of frames with 1.25*10^4 / 10^5 minimal rows (CPU time of all entry points may grow by at most 12x for 8x the rows, confirmed by a second measurement), three pairs of ~200 KB streams that differ only in a declared table size (peak RSS may differ by at most 48 MiB), plus four fixed large inputs (4*10^5 leading / 10^6 / 3*10^5 trailing empty frames, "
    "5*10^4 rows in one frame); each through parse_jelly_flat, parse_jelly_grouped and parse_jelly_to_graph of both "
    "integrations, from BytesIO, from a non-seekable short-reading raw source and from a BufferedReader over a non-seekable source whose first reads deliver 1 and 2 bytes; (d) atheris coverage-guided campaigns on "
    "the four flat / grouped entry points with a structure-aware custom mutator, seeded and empty corpus. Oracle, enforced "
    "by a supervising process over forked workers: the call returns or raises an ordinary Exception; the worker never "
    "dies; no input <= 64 KiB takes more than 20 s (a timeout that does not reproduce alone is inconclusive, not a "
    "violation); peak RSS of the worker grows by <= 256 MiB + 2 KiB per input byte (ballooning is judged by measured RSS; a MemoryError raised at once for an absurd declared length is an ordinary exception). non-trivial = input with a parsable "
    "options row (gets past get_options_and_frames); distinct by input hash."
)
ASSUMPTIONS = [
    "protobuf (upb) is trusted base: its recursion limit, length checks and UTF-8 validation are not the subject",
    "libFuzzer pins a campaign only approximately; the saved crashing input is the reproducible unit",
    "RecursionError is an ordinary exception (it does not kill the interpreter)",
]
TIME_LIMIT = 20.0
RSS_LIMIT_KB = 256 * 1024


# ------------------------------------------------------------------ generators
def _valid_streams():
    return scen.stream_source(max_len=6)


@st.composite
def mutated_valid(draw):
    src = draw(_valid_streams())
    data, _, _ = scen.source_bytes(src)
    data = bytearray(data)
    n = draw(st.integers(1, 4))
    for _ in range(n):
        op = draw(st.sampled_from(["flip", "insert", "delete", "truncate", "dup_frame", "splice", "set"]))
        if not data:
            break
        if op == "flip":
            i = draw(st.integers(0, len(data) - 1))
            data[i] ^= 1 << draw(st.integers(0, 7))
        elif op == "set":
            i = draw(st.integers(0, len(data) - 1))
            data[i] = draw(st.sampled_from([0, 0x0A, 0x7F, 0x80, 0xFF, 1, 8]))
        elif op == "insert":
            i = draw(st.integers(0, len(data)))
            data[i:i] = draw(st.binary(min_size=1, max_size=4))
        elif op == "delete":
            i = draw(st.integers(0, len(data) - 1))
            del data[i:i + draw(st.integers(1, 3))]
        elif op == "truncate":
            del data[draw(st.integers(0, len(data))):]
        elif op == "dup_frame":
            try:
                frames = wire.split_delimited(bytes(data))
                if frames:
                    k = draw(st.integers(0, len(frames) - 1))
                    frames.insert(k, frames[k])
                    data = bytearray(wire.join_delimited(frames))
            except wire.WireError:
                pass
        else:
            other, _, _ = scen.source_bytes(draw(_valid_streams()))
            if other:
                i = draw(st.integers(0, len(data)))
                j = draw(st.integers(0, len(other)))
                data = data[:i] + bytearray(other[j:])
    return bytes(data)


def _nest(depth, missing=None, slot="o"):
    """A triple holding `depth` nested quoted triples; `missing` names a term left unset in the innermost one."""
    t = ("bnode", "x")
    stmt = {"s": t, "p": t, "o": t}
    if missing:
        stmt[missing] = None
    for _ in range(depth):
        stmt = {"s": ("bnode", "a"), "p": ("bnode", "b"), "o": ("bnode", "c"), slot: ("triple", stmt)}
    return stmt


@st.composite
def hostile(draw):
    kind = draw(st.sampled_from(["huge_tables", "huge_frame_len", "huge_row_len", "deep_nesting", "odd_options",
                                 "many_empty_frames", "huge_ids", "bad_utf8", "overlong_varint", "huge_string_len",
                                 "many_rows", "metadata_flood", "numeric_lexical", "backtracking_strings", "huge_options_numbers"]))
    big = draw(st.sampled_from([4097, 65536, 2 ** 20, 2 ** 24, 2 ** 26, 2 ** 27, 2 ** 28, 2 ** 31 - 1, 2 ** 31, 2 ** 32 - 1]))
    opts = {"physical_type": draw(st.sampled_from([1, 2, 3])), "logical_type": 0, "max_name_table_size": 16,
            "max_prefix_table_size": 8, "max_datatype_table_size": 8, "version": 1}
    stmt = {"s": ("iri", 1, 1), "p": ("iri", 0, 0), "o": ("lit", "x", None)}
    base_rows = [("options", opts), ("prefix", 0, "http://p/"), ("name", 0, "a"), ("name", 0, "b"), ("triple", stmt)]
    if kind == "backtracking_strings":
        # long runs of "nice" characters ending in one that does not fit: the shape that makes a careless validation
        # regex backtrack exponentially (labels, names, language tags, lexical forms)
        run = draw(st.sampled_from(["a" * 30, "N" + "0123456789abcdef" * 2, "ab" * 25, "x-" * 20 + "x", "a.b" * 15, "z" * 64]))
        bad = run + draw(st.sampled_from(["&", "!", " ", "\u00e9\u0301", "/", "-", "."]))
        where = draw(st.sampled_from(["bnode", "name", "prefix", "lang", "lex", "graph_bnode", "datatype"]))
        o = ("lit", "v", None)
        rows = [("options", {**opts, "physical_type": 2})]
        s_ = ("bnode", bad) if where == "bnode" else ("bnode", "s")
        g_ = ("bnode", bad) if where == "graph_bnode" else ("default",)
        if where == "name":
            rows += [("name", 0, bad)]
            s_ = ("iri", 0, 1)
        elif where == "prefix":
            rows += [("prefix", 0, bad), ("name", 0, "n")]
            s_ = ("iri", 1, 1)
        elif where == "lang":
            o = ("lit", "v", ("lang", bad))
        elif where == "lex":
            o = ("lit", bad, None)
        elif where == "datatype":
            rows += [("datatype", 0, bad)]
            o = ("lit", "v", ("dt", 1))
        rows.append(("quad", {"s": s_, "p": ("bnode", "p"), "o": o, "g": g_}))
        return wire.enc_stream([{"rows": rows, "metadata": []}], True)
    if kind == "numeric_lexical":
        # short lexical forms that *declare* huge magnitudes: an adapter that evaluates or re-renders them balloons
        xsd = "http://www.w3.org/2001/XMLSchema#"
        lexes = {"decimal": ["1E+200000000", "1e999999999", "0." + "0" * 50 + "1", "1E-300000000"],
                 "integer": ["9" * 4000, "1E+99999999", "+" + "0" * 3000 + "7"],
                 "double": ["1e400", "-1E+999999999", "NaN", "INF"],
                 "float": ["1e40", "1E+99999999"],
                 "gYear": ["999999999999", "-99999999999999"], "dateTime": ["99999999-12-31T23:59:59Z"],
                 "duration": ["P" + "9" * 200 + "Y"], "hexBinary": ["F" * 4001], "base64Binary": ["A" * 4002],
                 "nonNegativeInteger": ["1" + "0" * 5000], "boolean": ["maybe", "1" * 100]}
        dt = draw(st.sampled_from(sorted(lexes)))
        lexv = draw(st.sampled_from(lexes[dt]))
        big_lit = ("lit", lexv, ("dt", 1))
        where = draw(st.sampled_from(["o", "o", "s", "quoted", "graph"]))
        first = {"s": ("bnode", "a"), "p": ("bnode", "b"), "o": big_lit}
        if where == "s":
            first = {"s": big_lit, "p": ("bnode", "b"), "o": ("bnode", "c")}
        elif where == "quoted":
            first = {"s": ("bnode", "a"), "p": ("bnode", "b"), "o": ("triple", {"s": ("bnode", "x"), "p": ("bnode", "y"), "o": big_lit})}
        rows = [("options", {**opts, "physical_type": 1}), ("datatype", 0, xsd + dt), ("triple", first)]
        if where == "graph":
            rows = [("options", {**opts, "physical_type": 2}), ("datatype", 0, xsd + dt),
                    ("quad", {"s": ("bnode", "a"), "p": ("bnode", "b"), "o": ("bnode", "c"), "g": big_lit})]
        # followed by statements that repeat the term by leaving the slot out (what every writer does)
        for k in range(draw(st.integers(0, 3))):
            nxt = {"p": ("bnode", "p%d" % k)} if where != "graph" else {"s": ("bnode", "s%d" % k)}
            rows.append(("triple" if where != "graph" else "quad", nxt))
        return wire.enc_stream([{"rows": rows, "metadata": []}], True)
    if kind == "huge_options_numbers":
        # every numeric field of the options row is an unvalidated varint the stream merely declares
        field = draw(st.sampled_from(["version", "version", "physical_type", "logical_type", "max_name_table_size",
                                      "max_prefix_table_size", "max_datatype_table_size"]))
        rows = [("options", {**opts, field: draw(st.sampled_from([big, 10 ** 8, 10 ** 9, 2 ** 32 - 1, 2 ** 31 - 1]))})] + base_rows[1:]
        return wire.enc_stream([{"rows": rows, "metadata": []}], draw(st.booleans()))
    if kind == "huge_tables":
        field = draw(st.sampled_from(["max_name_table_size", "max_prefix_table_size", "max_datatype_table_size"]))
        rows = [("options", {**opts, field: big})] + base_rows[1:]
        return wire.enc_stream([{"rows": rows, "metadata": []}], draw(st.booleans()))
    if kind == "huge_frame_len":
        body = wire.enc_frame({"rows": base_rows, "metadata": []})
        return wire.enc_varint(draw(st.sampled_from([2 ** 31, 2 ** 40, 2 ** 62, 2 ** 63, len(body) + 1]))) + body
    if kind == "huge_row_len":
        return wire.join_delimited([wire.tag(1, 2) + wire.enc_varint(draw(st.sampled_from([2 ** 31, 2 ** 62]))) + b"\x0a\x02\x10\x01"])
    if kind == "huge_string_len":
        row = wire.tag(9, 2) + wire.enc_varint(6) + wire.tag(2, 2) + wire.enc_varint(2 ** 40) + b"ab"
        frame = wire.f_len(1, wire.enc_row(("options", opts))) + wire.f_len(1, row)
        return wire.join_delimited([frame])
    if kind == "deep_nesting":
        depth = draw(st.sampled_from([1, 10, 25, 40, 60, 90, 98, 99, 100, 101, 150, 300]))
        # complete nests, and nests whose innermost quoted triple lacks a term (an error found only at the bottom)
        missing = draw(st.sampled_from([None, "s", "p", "o"]))
        rows = [("options", {**opts, "physical_type": 1}),
                ("triple", _nest(depth, missing, draw(st.sampled_from(["o", "s"]))))]
        return wire.enc_stream([{"rows": rows, "metadata": []}], True)
    if kind == "odd_options":
        rows = list(base_rows)
        pos = draw(st.integers(0, len(rows)))
        rows.insert(pos, ("options", {**opts, "max_name_table_size": draw(st.sampled_from([16, 17, big]))}))
        if draw(st.booleans()):
            rows = rows[1:]
        return wire.enc_stream([{"rows": rows, "metadata": []}], True)
    if kind == "many_empty_frames":
        n = draw(st.sampled_from([100, 10 ** 4]))
        tail = wire.enc_stream([{"rows": base_rows, "metadata": []}], True) if draw(st.booleans()) else b""
        return b"\x00" * n + tail
    if kind == "huge_ids":
        rows = [("options", opts), ("name", draw(st.sampled_from([big, 2 ** 32 - 1])), "a"),
                ("triple", {"s": ("iri", 2 ** 32 - 1, 2 ** 32 - 1), "p": ("iri", 0, big), "o": ("lit", "x", ("dt", 2 ** 32 - 1))})]
        return wire.enc_stream([{"rows": rows[:draw(st.integers(2, 3))] + rows[2:], "metadata": []}], True)
    if kind == "bad_utf8":
        entry = wire.f_varint(1, 1) + wire.f_len(2, draw(st.sampled_from([b"\xff\xfe", b"\xc3", b"\xed\xa0\x80"])))
        frame = wire.f_len(1, wire.enc_row(("options", opts))) + wire.f_len(1, wire.f_len(9, entry))
        return wire.join_delimited([frame])
    if kind == "overlong_varint":
        body = wire.enc_frame({"rows": base_rows, "metadata": []})
        return b"\x80" * draw(st.integers(1, 12)) + bytes([len(body) & 0x7F]) + body
    if kind == "many_rows":
        rows = [("options", opts)] + [("name", 0, "n")] * draw(st.sampled_from([100, 5000]))
        return wire.enc_stream([{"rows": rows, "metadata": []}], True)
    # metadata_flood
    frame = {"rows": base_rows, "metadata": [("k%d" % i, b"v" * 10) for i in range(draw(st.sampled_from([10, 2000])))]}
    return wire.enc_stream([frame], True)


def inputs_strategy():
    return st.one_of(st.binary(max_size=4096), st.binary(max_size=64), mutated_valid(), mutated_valid(), mutated_valid(),
                     hostile(), hostile())


# ------------------------------------------------------------------ execution
ENTRIES = ["generic_flat", "generic_grouped", "generic_to_graph", "rdflib_flat", "rdflib_grouped", "rdflib_to_graph",
           "generic_flat_raw", "rdflib_grouped_raw", "generic_flat_buf12", "rdflib_to_graph_buf21"]


def run_entry(entry: str, data: bytes):
    """-> None (returned / ordinary exception) or a string describing a bad outcome."""
    from pyjelly.integrations.generic import parse as gp
    from pyjelly.integrations.rdflib import parse as rp

    integ, _, what = entry.partition("_")
    raw = what.endswith("_raw")
    buf = what[-6:] if what[-6:] in ("_buf12", "_buf21") else ""
    what = what.replace("_raw", "").replace(buf, "")
    m = gp if integ == "generic" else rp
    if buf:
        # a buffered reader (it has peek()) over a non-seekable source whose first reads deliver 1 and 2 bytes
        inp = io.BufferedReader(iosim.DribbleRaw(data, [1, 2, 4096] if buf == "_buf12" else [2, 1, 4096]))
    else:
        inp = iosim.DribbleRaw(data, [7, 1, 3]) if raw else io.BytesIO(data)
    try:
        if what == "flat":
            for _ in m.parse_jelly_flat(inp):
                pass
        elif what == "grouped":
            for s in m.parse_jelly_grouped(inp):
                len(s)
        else:
            m.parse_jelly_to_graph(inp)
    except MemoryError:
        return "MemoryError"
    except Exception:  # noqa: BLE001
        return None
    except BaseException as exc:  # noqa: BLE001
        return f"non-ordinary exception {type(exc).__name__}"
    return None


def _child(wfd, inputs):
    import json
    import logging

    logging.disable(logging.CRITICAL)

    def send(obj):
        os.write(wfd, (json.dumps(obj) + "\n").encode())

    base = resource.getrusage(resource.RUSAGE_SELF).ru_maxrss
    worst_t, worst_i = 0.0, -1
    bad = []
    memerr = 0
    past = []
    rss_jump = None
    last_rss = base
    cpu = []
    for i, data in enumerate(inputs):
        c0 = time.process_time()
        for entry in ENTRIES:
            # progress marker per call: the supervisor allows each call TIME_LIMIT (inputs up to 64 KiB) before it
            # declares a hang
            send(["start", i, TIME_LIMIT + 5 if len(data) <= 65536 else 90.0])
            t0 = time.monotonic()
            r = run_entry(entry, data)
            dt = time.monotonic() - t0
            if dt > worst_t:
                worst_t, worst_i = dt, i
            if r == "MemoryError":
                memerr += 1  # an ordinary exception; ballooning is judged by the RSS measurement below
            elif r is not None:
                bad.append((i, entry, r))
            if dt > TIME_LIMIT and len(data) <= 65536:
                bad.append((i, entry, f"took {dt:.1f}s"))
        cpu.append(time.process_time() - c0)
        past.append(past_options(data))
        rss = resource.getrusage(resource.RUSAGE_SELF).ru_maxrss
        if rss - last_rss > RSS_LIMIT_KB and rss_jump is None:
            rss_jump = (i, rss - last_rss)
        last_rss = max(last_rss, rss)
    send(["done", {"worst_t": worst_t, "worst_i": worst_i, "bad": bad, "rss_growth_kb": last_rss - base,
                   "rss_jump": rss_jump, "memerr": memerr, "past": past, "cpu": cpu}])


def supervise(inputs, timeout):
    """Run a batch in a forked child (os.fork: pool workers are daemonic). -> dict(status=ok|died|timeout, ...)."""
    import json
    import select
    import signal

    rfd, wfd = os.pipe()
    pid = os.fork()
    if pid == 0:
        code = 0
        try:
            os.close(rfd)
            _child(wfd, inputs)
        except BaseException:  # noqa: BLE001
            code = 3
        finally:
            os._exit(code)
    os.close(wfd)
    last = -1
    t_end = time.monotonic() + timeout
    buf = b""
    status = None

    def reap(kill=False):
        if kill:
            try:
                os.kill(pid, signal.SIGKILL)
            except ProcessLookupError:
                pass
        try:
            _, st_ = os.waitpid(pid, 0)
            return st_
        except ChildProcessError:
            return None

    try:
        while True:
            remaining = t_end - time.monotonic()
            if remaining <= 0:
                reap(kill=True)
                return {"status": "timeout", "last": last}
            ready, _, _ = select.select([rfd], [], [], min(remaining, 0.5))
            if not ready:
                continue
            chunk = os.read(rfd, 65536)
            if not chunk:
                st_ = reap()
                return {"status": "died", "last": last, "exitcode": st_}
            buf += chunk
            while b"\n" in buf:
                line, buf = buf.split(b"\n", 1)
                kind, val, *more = json.loads(line)
                if kind == "start":
                    last = val
                    t_end = time.monotonic() + more[0]
                else:
                    reap()
                    val["bad"] = [tuple(b) for b in val["bad"]]
                    return {"status": "ok", **val}
    finally:
        os.close(rfd)


def check_input(data: bytes):
    """Re-run one input alone, fresh child. -> Violation or None."""
    r = supervise([data], TIME_LIMIT * len(ENTRIES) + 10)
    case = {"kind": "bytes", "hex": data.hex() if len(data) <= 200000 else None, "len": len(data)}
    if r["status"] == "died":
        return Violation("C17:interpreter-died", f"worker exit code {r.get('exitcode')} on a {len(data)}-byte input", case)
    if r["status"] == "timeout":
        return Violation("C17:hang", f"a parse call did not return within {TIME_LIMIT:.0f}s on a {len(data)}-byte input", case)
    for _, entry, what in r["bad"]:
        tag = "slow" if what.startswith("took") else "bad-exception"
        return Violation(f"C17:{tag}:{entry}", f"{entry}: {what} on a {len(data)}-byte input", case)
    # memory in proportion to what the input really contains (e.g. 10^5 frames actually present) is not the subject;
    # memory in proportion to merely declared sizes is: allow 2 KiB per input byte on top of the fixed bound
    if r["rss_growth_kb"] > RSS_LIMIT_KB + 2 * len(data):
        return Violation("C17:balloon:rss", f"peak RSS grew by {r['rss_growth_kb'] // 1024} MiB on a {len(data)}-byte input", case)
    return None


def check_case(case):
    if case.get("hex") is None:
        if "scaling_pair" in case:
            for label, small, big in scaling_pairs():
                if label == case["scaling_pair"]:
                    r1, r2 = supervise([small], 300), supervise([big], 600)
                    if r1["status"] != "ok" or r2["status"] != "ok":
                        return Violation("C17:hang", f"{label}: {r1['status']} / {r2['status']}", case)
                    c1, c2 = r1["cpu"][0], r2["cpu"][0]
                    if c2 > 5.0 and c2 > SCALING_FACTOR_LIMIT * max(c1, 0.05):
                        return Violation("C17:superlinear-time", f"{label}: {c1:.2f} s -> {c2:.2f} s", case)
            return None
        if "declared_pair" in case:
            for field, small, big in declared_size_pairs():
                if field == case["declared_pair"]:
                    r1, r2 = supervise([small], 120), supervise([big], 120)
                    if r1["status"] == "ok" and r2["status"] == "ok" and r2["rss_growth_kb"] - r1["rss_growth_kb"] > DECLARED_DIFF_LIMIT_KB:
                        return Violation("C17:balloon:declared-size", f"declared {field} 16 vs 4096: peak RSS differs by "
                                         f"{(r2['rss_growth_kb'] - r1['rss_growth_kb']) // 1024} MiB", case)
            return None
        if "fixed_index" in case:
            return check_input(fixed_hostile()[case["fixed_index"]])
        return None
    return check_input(bytes.fromhex(case["hex"]))


def past_options(data: bytes) -> bool:
    from pyjelly.parse.ioutils import get_options_and_frames

    try:
        get_options_and_frames(io.BytesIO(data))
    except Exception:  # noqa: BLE001
        return False
    return True


def run_generated(spec, acc):
    inputs = draw_examples(inputs_strategy(), spec["n"], spec["seed"] * 1000 + spec["shard"])
    known = set(spec["known"])
    batch = 250
    import hashlib

    for off in range(0, len(inputs), batch):
        chunk = inputs[off:off + batch]
        r = supervise(chunk, 120 + TIME_LIMIT)
        suspects = []
        acc.evaluations += len(chunk)
        for d, nt in zip(chunk, r.get("past", [])):
            # (whether an input has a parsable options row is measured inside the supervised worker)
            if nt:
                h = hashlib.sha1(d).hexdigest()[:16]
                if h not in acc.nontrivial:
                    acc.nontrivial.add(h)
                    if len(acc.samples) < 2:
                        acc.samples.append({"kind": "bytes", "hex": d[:300].hex(), "len": len(d)})
            acc.counters["inputs_past_options" if nt else "inputs_rejected_early"] += 1
        if r["status"] in ("died", "timeout"):
            suspects = [chunk[r["last"]]] if r["last"] >= 0 else []
            acc.counters["batches_" + r["status"]] += 1
        else:
            suspects = [chunk[i] for i, _, _ in r["bad"]]
            if r["rss_jump"] is not None:
                suspects.append(chunk[r["rss_jump"][0]])
            acc.counters["memoryerror_raised_without_rss_growth"] += r.get("memerr", 0)
            acc.extra["max_single_call_s"] = max(acc.extra.get("max_single_call_s", 0.0), round(r["worst_t"], 3))
            acc.extra["max_batch_rss_growth_mib"] = max(acc.extra.get("max_batch_rss_growth_mib", 0), r["rss_growth_kb"] // 1024)
        seen = set()
        for d in suspects:
            v = check_input(d)
            if v is None:
                acc.counters["suspect_not_reproduced_alone"] += 1
                continue
            if v.signature in known:
                acc.known_hits[v.signature] += 1
            elif v.signature not in seen:
                seen.add(v.signature)
                acc.violations.append(v.to_json())
        if acc.violations:
            break


# ----------------------------------------------------------------------- atheris
def run_atheris(spec, acc):
    deps = os.path.join(env.VERIF, ".deps")
    if not os.path.isdir(os.path.join(deps, "atheris")):
        acc.counters["atheris_unavailable"] += 1
        return
    work = os.path.join(env.WORK, f"fuzz_{os.getpid()}_{spec['shard']}")
    shutil.rmtree(work, ignore_errors=True)
    corpus = os.path.join(work, "corpus")
    os.makedirs(corpus)
    if spec["seeded"]:
        for i, src in enumerate(draw_examples(scen.stream_source(max_len=4, delimited=True), 12, spec["seed"] + spec["shard"])):
            data, _, _ = scen.source_bytes(src)
            if data:
                with open(os.path.join(corpus, f"seed{i}"), "wb") as fh:
                    fh.write(data)
    cmd = [sys.executable, os.path.join(env.VERIF, "fuzz", "fuzz_parse.py"), spec["target"], corpus,
           f"-runs={spec['runs']}", f"-seed={(spec['seed'] * 97 + spec['shard']) % (2 ** 31) or 1}", "-max_len=4096",
           f"-timeout={int(TIME_LIMIT)}", "-rss_limit_mb=2048", f"-artifact_prefix={work}/", "-print_final_stats=1"]
    e = dict(os.environ, VERIF_REPO=env.REPO, PYTHONDONTWRITEBYTECODE="1")
    try:
        p = subprocess.run(cmd, capture_output=True, text=True, env=e, timeout=spec.get("wall", 600), cwd=work)
        out = p.stderr + p.stdout
        execs = 0
        for line in out.splitlines():
            if "stat::number_of_executed_units" in line:
                execs = int(line.split(":")[-1].strip())
        acc.evaluations += execs
        acc.counters[f"atheris_execs_{spec['target']}"] += execs
        acc.counters["atheris_corpus_" + ("seeded" if spec["seeded"] else "empty")] += 1
        arts = [f for f in glob.glob(os.path.join(work, "*")) if os.path.basename(f).startswith(("crash-", "timeout-", "oom-", "leak-"))]
        if p.returncode != 0 and not arts:
            acc.counters["atheris_nonzero_exit_without_artifact"] += 1
            acc.extra.setdefault("atheris_log_tail", out[-600:])
        for a in arts:
            with open(a, "rb") as fh:
                d = fh.read()
            v = check_input(d)
            if v is None:
                acc.counters["atheris_artifact_not_reproduced"] += 1
            elif v.signature in set(spec["known"]):
                acc.known_hits[v.signature] += 1
            else:
                acc.violations.append(v.to_json())
                break
        # non-trivial inputs discovered: corpus entries with a parsable options row
        import hashlib

        found = []
        for f in glob.glob(os.path.join(corpus, "*"))[:1500]:
            with open(f, "rb") as fh:
                found.append(fh.read())
        r2 = supervise(found, 300) if found else {"status": "ok", "past": []}
        for d, nt in zip(found, r2.get("past", [])):
            if nt:
                acc.nontrivial.add(hashlib.sha1(d).hexdigest()[:16])
    except subprocess.TimeoutExpired:
        acc.counters["atheris_wall_budget_hit_inconclusive"] += 1
    finally:
        shutil.rmtree(work, ignore_errors=True)


def fixed_hostile():
    """Deterministic large hostile inputs, too expensive to draw often."""
    opts = {"physical_type": 1, "logical_type": 1, "max_name_table_size": 16, "max_prefix_table_size": 8,
            "max_datatype_table_size": 8, "version": 1}
    stmt = {"s": ("bnode", "a"), "p": ("bnode", "b"), "o": ("lit", "x", None)}
    valid = wire.enc_stream([{"rows": [("options", opts), ("triple", stmt)], "metadata": []}], True)
    out = [b"\x00" * 400_000 + valid,                       # 4*10^5 empty frames, then a valid one
           b"\x00" * 200_000,                                # only empty frames
           valid + b"\x00" * 300_000]                        # trailing empty frames
    rows = [("options", opts)] + [("triple", stmt)] * 50_000  # one frame with 5*10^4 rows
    out.append(wire.enc_stream([{"rows": rows, "metadata": []}], True))
    # ~90-byte streams whose single literal declares a huge magnitude
    for lexv in ("1E+200000000", "1e999999999"):
        rows = [("options", opts), ("datatype", 0, "http://www.w3.org/2001/XMLSchema#decimal"),
                ("triple", {"s": ("bnode", "a"), "p": ("bnode", "b"), "o": ("lit", lexv, ("dt", 1))})]
        out.append(wire.enc_stream([{"rows": rows, "metadata": []}], True))
        # ... and the same literal repeated by the following statements (slot left out), in the object and in the subject
        rep = rows + [("triple", {"p": ("bnode", "c")}), ("triple", {"s": ("bnode", "d")})]
        out.append(wire.enc_stream([{"rows": rep, "metadata": []}], True))
        subj = rows[:2] + [("triple", {"s": ("lit", lexv, ("dt", 1)), "p": ("bnode", "b"), "o": ("bnode", "c")}),
                           ("triple", {"o": ("bnode", "e")})]
        out.append(wire.enc_stream([{"rows": subj, "metadata": []}], True))
    for ver in (2 ** 32 - 1, 10 ** 9):
        out.append(wire.enc_stream([{"rows": [("options", {**opts, "version": ver}), ("triple", stmt)], "metadata": []}], True))
    return out


def declared_size_pairs():
    """Pairs of streams that differ ONLY in a table size their options row declares (16 / 8 vs 4096) while using the same
    entries: what a parser allocates may depend on what a stream contains, not on what it merely declares."""
    pairs = []
    for field in ("max_name_table_size", "max_prefix_table_size", "max_datatype_table_size"):
        streams = []
        for declared in (16, 4096):
            opts = {"physical_type": 1, "logical_type": 1, "max_name_table_size": 4096, "max_prefix_table_size": 4096,
                    "max_datatype_table_size": 4096, "version": 1}
            opts[field] = declared
            rows = [("options", opts)]
            # the table under test is used within its small size (slots 1..8); the other two are used widely
            for k in range(3000):
                n_id = (k % 8) + 1 if field == "max_name_table_size" else k + 1
                p_id = (k % 8) + 1 if field == "max_prefix_table_size" else k + 1
                d_id = (k % 8) + 1 if field == "max_datatype_table_size" else k + 1
                rows.append(("prefix", p_id, "http://p%d.example/" % k))
                rows.append(("name", n_id, "n%d" % k))
                rows.append(("datatype", d_id, "http://dt.example/t%d" % k))
                rows.append(("triple", {"s": ("iri", p_id, n_id), "p": ("bnode", "p"), "o": ("lit", "v", ("dt", d_id))}))
            streams.append(wire.enc_stream([{"rows": rows, "metadata": []}], True))
        pairs.append((field, streams[0], streams[1]))
    return pairs


DECLARED_DIFF_LIMIT_KB = 48 * 1024


def scaling_pairs():
    """One frame of n and of 8n minimal rows (each statement repeats the previous one): work must grow with what the input
    contains - roughly linearly - not with its square."""
    opts = {"physical_type": 1, "logical_type": 1, "max_name_table_size": 16, "max_prefix_table_size": 8,
            "max_datatype_table_size": 8, "version": 1}
    first = ("triple", {"s": ("bnode", "a"), "p": ("bnode", "b"), "o": ("lit", "x", None)})
    out = []
    for delimited in (True, False):
        pair = []
        for n in (12_500, 100_000):
            rows = [("options", opts), first] + [("triple", {"o": ("lit", "y", None)}), ("triple", {"o": ("lit", "x", None)})] * (n // 2)
            pair.append(wire.enc_stream([{"rows": rows, "metadata": []}], delimited))
        out.append(("delimited" if delimited else "nondelimited", pair[0], pair[1]))
    return out


SCALING_FACTOR_LIMIT = 12.0   # 8x the rows: linear is a factor of 8 (measured 6.3..7.9 on the pinned tree); confirmed by a second measurement


def run_fixed(spec, acc):
    import hashlib

    for label, small, big in scaling_pairs():
        r1, r2 = supervise([small], 300), supervise([big], 600)
        acc.evaluations += 2
        acc.counters["scaling_pairs"] += 1
        if r1["status"] != "ok" or r2["status"] != "ok":
            if "C17:hang" not in set(spec["known"]):
                acc.violations.append(Violation("C17:hang", f"{label} frame of 10^5 minimal rows ({len(big)} bytes): {r2['status']} / "
                                                f"{r1['status']}", {"kind": "bytes", "hex": None, "len": len(big), "scaling_pair": label}).to_json())
                return
            continue
        c1, c2 = r1["cpu"][0], r2["cpu"][0]
        if c2 > 5.0 and c2 > SCALING_FACTOR_LIMIT * max(c1, 0.05):
            # measure again before believing it (CPU time, but the machine may be busy)
            r1b, r2b = supervise([small], 300), supervise([big], 600)
            if r1b["status"] == "ok" and r2b["status"] == "ok":
                c1, c2 = max(c1, r1b["cpu"][0]), min(c2, r2b["cpu"][0])
        if c2 > 5.0 and c2 > SCALING_FACTOR_LIMIT * max(c1, 0.05) and "C17:superlinear-time" not in set(spec["known"]):
            acc.violations.append(Violation("C17:superlinear-time", f"{label}: 8x the rows cost {c2 / max(c1, 0.05):.0f}x the CPU time "
                                            f"({c1:.2f} s -> {c2:.2f} s for {len(small)} -> {len(big)} bytes)",
                                            {"kind": "bytes", "hex": None, "len": len(big), "scaling_pair": label}).to_json())
            return
    for field, small, big in declared_size_pairs():
        r1 = supervise([small], 120)
        r2 = supervise([big], 120)
        acc.evaluations += 2
        acc.counters["declared_size_pairs"] += 1
        if r1["status"] != "ok" or r2["status"] != "ok":
            v = check_input(big if r2["status"] != "ok" else small)
            if v is not None and v.signature not in set(spec["known"]):
                v.case = {"kind": "bytes", "hex": None, "len": len(big), "declared_pair": field}
                acc.violations.append(v.to_json())
                return
            continue
        diff = r2["rss_growth_kb"] - r1["rss_growth_kb"]
        acc.extra.setdefault("declared_size_rss_diff_mib", {})[field] = diff // 1024
        if diff > DECLARED_DIFF_LIMIT_KB and "C17:balloon:declared-size" not in set(spec["known"]):
            acc.violations.append(Violation("C17:balloon:declared-size", f"two {len(big)}-byte streams that differ only in the "
                                            f"declared {field} (16 vs 4096): peak RSS differs by {diff // 1024} MiB",
                                            {"kind": "bytes", "hex": None, "len": len(big), "declared_pair": field}).to_json())
            return

    known = set(spec["known"])
    for d in sorted(fixed_hostile(), key=len):
        acc.evaluations += 1
        acc.counters["fixed_large_hostile_inputs"] += 1
        acc.nontrivial.add(hashlib.sha1(d).hexdigest()[:16])
        v = check_input(d)
        if v is None:
            continue
        if (v.signature.startswith("C17:slow") or v.signature == "C17:hang") and len(d) > 65536:
            # the 20 s bound is stated for inputs <= 64 KiB; these are larger
            acc.counters["large_input_slow_not_asserted"] += 1
            continue
        v.case = {"kind": "bytes", "hex": None, "len": len(d), "fixed_index": fixed_hostile().index(d)}
        if v.signature in known:
            acc.known_hits[v.signature] += 1
        else:
            acc.violations.append(v.to_json())
            return


def run_shard(spec) -> Acc:
    acc = Acc()
    if spec["part"] == "fixed":
        run_fixed(spec, acc)
        return acc
    if spec["part"] == "generated":
        run_generated(spec, acc)
    else:
        run_atheris(spec, acc)
    return acc


def plan(tier, seed):
    q = tier == "quick"
    specs = [{"part": "fixed", "shard": 99}]
    specs += [{"part": "generated", "shard": i, "n": 250 if q else 12000} for i in range(7)]
    targets = ["generic_flat", "generic_grouped", "rdflib_flat", "rdflib_grouped"]
    k = 0
    for t in targets:
        for seeded in (True, False):
            specs.append({"part": "atheris", "shard": 100 + k, "target": t, "seeded": seeded,
                          "runs": 15000 if q else 1500000, "wall": 240 if q else 1500})
            k += 1
    return specs
