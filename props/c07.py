"""C07 - frame boundaries never change content; grouped I/O is one sink per frame."""
from __future__ import annotations

import contextvars
import io

from hypothesis import strategies as st

from vlib import env  # noqa: F401
from vlib import gen, jellyenc, jellyref, pyj, scen, wire
from vlib import terms as T
from vlib.env import HarnessError
from vlib.harness import Acc, Violation, hyp_search

ID = "C07"
LEVEL = "exploration"
RULE = (
    "(a,b) Hypothesis: valid delimited streams written by pyjelly (generic entry points) and by the reference encoder E "
    "(arbitrary legal producer choices) are split into opaque row blobs with my own wire codec and re-partitioned by a "
    "drawn cut list (empty frames anywhere incl. leading / trailing, all-in-one, one row per frame) with drawn metadata "
    "maps on any frame. Oracles: flat parse of the re-framing == flat parse of the original (both integrations); grouped "
    "parse yields exactly one sink per frame, sink j holds exactly the statements R attributes to frame j, the "
    "concatenation equals the flat parse, and frame_metadata.get() observed after each next() equals frame j's metadata. "
    "Additionally ALL 2^(rows-1) partitions into non-empty frames are enumerated for generated streams of 3..12 rows "
    "(4 streams quick, 192 thorough). (d) an rdflib Dataset with several graphs through one stream_frames / serialize call of a TripleStream with a GRAPHS logical type: the frames that carry statements correspond one to one to the Dataset's non-empty graphs. (c) sequences of 1..6 graphs / datasets (some empty) written through one shared stream with every grouped logical "
    "type, both integrations: the frames that carry statements correspond 1:1, in order, to the non-empty inputs and each "
    "decodes (R, tables and repeated terms carried across frames) to exactly that input. "
    "non-trivial = re-framing with a cut between an entry row and its first use or between two statements where the second "
    "elides a term (a,b); >=3 sinks sharing terms (c); distinct by case hash."
)
ASSUMPTIONS = [
    "an empty input graph may produce no frame or a frame without statements (the property speaks of non-empty inputs)",
    "known finding F10 (first frame without rows, with metadata, exactly 10 bytes long) is excluded by construction from "
    "the generator and reproduced by its own replay",
]
F10_SIG = "C07:F10-first-frame-rowless-with-metadata-length-10"

meta_maps = st.lists(st.tuples(st.sampled_from(["k", "key2", "", "ü"]), st.binary(max_size=6)), max_size=2, unique_by=lambda x: x[0])


@st.composite
def reframe_case(draw):
    if draw(st.booleans()):
        src = draw(scen.e_case(max_len=8, delimited=True))
        src["source"] = "E"
    else:
        src = draw(scen.generic_write_case(max_len=8, mode="gen"))
        src["delimited"] = True
        src["source"] = "pyjelly"
    style = draw(st.sampled_from(["cuts", "cuts", "all_in_one", "one_per_frame"]))
    cuts = draw(st.lists(st.integers(0, 60), max_size=8))
    n_meta = draw(st.integers(0, 3))
    metas = [[(k, v.hex()) for k, v in draw(meta_maps)] for _ in range(n_meta)]
    return {"kind": "reframe", "src": src, "style": style, "cuts": cuts, "metas": metas}


def source_bytes(src):
    if src["source"] == "E":
        out = jellyenc.encode_case(src)
        return out["bytes"], src["mode"] == "rdflib"
    data, delimited = scen.write_generic(src)
    assert delimited
    return data, False


def reframe(data, case):
    rows = []
    for f in wire.split_delimited(data):
        r, _ = wire.split_frame_raw(f)
        rows.extend(r)
    n = len(rows)
    if case["style"] == "all_in_one":
        bounds = [0, n]
    elif case["style"] == "one_per_frame":
        bounds = list(range(n + 1))
    elif case["style"] == "mask":
        bounds = [0, *[i + 1 for i in range(n - 1) if (case["mask"] >> i) & 1], n]
    else:
        bounds = [0, *sorted(c % (n + 1) for c in case["cuts"]), n]
    frames = []
    metas = case["metas"]
    for i, (a, b) in enumerate(zip(bounds, bounds[1:])):
        m = [(k, bytes.fromhex(v)) for k, v in metas[i % len(metas)]] if metas else []
        frames.append((rows[a:b], m))
    if not frames:
        frames = [(rows, [])]
    raw = [wire.build_frame_raw(r, m) for r, m in frames]
    return raw, frames, rows, bounds


def norm_events(evs):
    out = []
    for e in evs:
        if e[0] == "prefix":
            out.append(["prefix", e[1], list(e[2])])
        elif e[0] == "BAD":
            out.append(e)
        else:
            out.append([list(T.norm(t)) if t[0] != "BAD" else t for t in e])
    return out


def body_reframe(case, acc):
    src = case["src"]
    try:
        data, rdflib_ok = source_bytes(src)
    except jellyenc.CannotEncode as exc:
        raise HarnessError(str(exc)) from exc
    if not data:
        return None
    raw, frames, rows, bounds = reframe(data, case)
    is_f10 = bool(frames) and not frames[0][0] and frames[0][1] and len(raw[0]) == 10
    if is_f10 and acc is not None and not case.get("allow_f10"):
        # known finding: excluded by construction so that the search continues behind it
        frames[0] = (frames[0][0], [])
        raw[0] = wire.build_frame_raw(frames[0][0], [])
        acc.excluded += 1
        is_f10 = False
    new = wire.join_delimited(raw)

    def V(sig, msg):
        return Violation(F10_SIG if is_f10 else sig, msg, case)

    ref = jellyref.decode(new, True, "strict")
    if ref.error is not None:
        if src["source"] == "pyjelly":
            # the stream pyjelly wrote is itself invalid: that is C03's subject, not a re-framing effect
            if acc is not None:
                acc.count("source_stream_invalid_skipped")
            return None
        raise HarnessError(f"re-framed stream invalid for R: {ref.error}")
    if acc is not None:
        # cut classification from R's audit: a cut right after an entry row, or before a statement with an elision
        audit = ref.audit
        cut_after_entry = cut_before_elision = False
        idx = 0
        row_to_audit = {}
        for a in audit:
            row_to_audit[(a["frame"], a["row"])] = a
        for fi in range(1, len(frames)):
            prev_rows = [row_to_audit.get((fi - 1, k)) for k in range(len(frames[fi - 1][0]))]
            cur_rows = [row_to_audit.get((fi, k)) for k in range(len(frames[fi][0]))]
            if prev_rows and prev_rows[-1] is not None and prev_rows[-1].get("table"):
                cut_after_entry = True
            if cur_rows and any(r is not None and r.get("elided") for r in cur_rows[:1]):
                cut_before_elision = True
        labels = ["source_" + src["source"], "style_" + case["style"]]
        if cut_after_entry:
            labels.append("cut_after_entry_row")
        if cut_before_elision:
            labels.append("cut_before_elided_statement")
        if any(not r for r, _ in frames):
            labels.append("empty_frames")
        if frames and not frames[0][0]:
            labels.append("leading_empty_frame")
        if any(m for _, m in frames):
            labels.append("metadata")
        acc.case(case, cut_after_entry or cut_before_elision, labels)

    for integ in ["generic"] + (["rdflib"] if rdflib_ok else []):
        try:
            orig = norm_events(pyj.parse_flat(data, integ))
        except Exception:  # noqa: BLE001
            # the un-reframed stream does not parse: C04's / C01's subject, nothing to compare a re-framing with
            if acc is not None:
                acc.count("original_unparsable_skipped")
            return None
        try:
            got = norm_events(pyj.parse_flat(new, integ))
        except Exception as exc:  # noqa: BLE001
            return V(f"C07:reframed-flat-raises:{type(exc).__name__}", f"{integ} flat parse of a re-framing raised {exc!r}; "
                     f"frame sizes {[len(r) for r, _ in frames]}")
        if got != orig:
            return V("C07:reframed-flat-differs", f"{integ} flat parse changed with the frame partition "
                     f"{[len(r) for r, _ in frames]}")
        # grouped
        var = contextvars.ContextVar("frame_metadata_%s" % integ)
        m = pyj._parse_mod(integ)
        sinks, seen_meta = [], []
        try:
            it = m.parse_jelly_grouped(io.BytesIO(new), frame_metadata=var)
            for sink in it:
                sinks.append(pyj.sink_events(sink, integ))
                seen_meta.append(dict(var.get({})))
        except Exception as exc:  # noqa: BLE001
            return V(f"C07:grouped-raises:{type(exc).__name__}", f"{integ} grouped parse of a re-framing raised {exc!r}")
        if len(sinks) != len(frames):
            return V("C07:grouped-sink-count", f"{integ}: {len(sinks)} sinks for {len(frames)} frames")
        for j, (sk, fe) in enumerate(zip(sinks, ref.frame_events)):
            want = [e for e in fe if e[0] != "prefix"]
            if integ == "generic":
                if norm_events(sk) != norm_events(want):
                    return V("C07:grouped-sink-content", f"generic sink {j} differs from the statements of frame {j}")
            else:
                ws = {T.norm_stmt(e) for e in want}
                if {T.norm_stmt(s) for s in sk} != ws:
                    return V("C07:grouped-sink-content", f"rdflib sink {j} differs from the statements of frame {j}")
            wm = dict(frames[j][1])
            if {k: bytes(v) for k, v in seen_meta[j].items()} != wm:
                return V("C07:grouped-metadata", f"{integ}: metadata visible for sink {j} is {seen_meta[j]!r}, frame carries {wm!r}")
    return None


# --------------------------------------------------------------------------- (c)
@st.composite
def grouped_write_case(draw):
    integration = draw(st.sampled_from(["generic", "rdflib"]))
    triples = draw(st.booleans())
    arity = 3 if triples else 4
    logical = draw(st.sampled_from([3, 13] if triples else [4, 14, 114]))
    n_sinks = draw(st.integers(1, 6))
    mode = "rdflib" if integration == "rdflib" else "gen"
    # one pool for all sinks so that they share terms: draw one long sequence and cut it
    stmts = draw(gen.statement_seq(arity=arity, mode=mode, max_len=14, min_len=1, pool_max=5))
    cuts = sorted(draw(st.lists(st.integers(0, len(stmts)), min_size=n_sinks - 1, max_size=n_sinks - 1)))
    bounds = [0, *cuts, len(stmts)]
    sinks = [stmts[a:b] for a, b in zip(bounds, bounds[1:])]
    # the flow: inferred from the logical type, or an explicit flow object handed over in the options (with or without
    # the logical type passed to its constructor)
    fname = "GraphsFrameFlow" if triples else "DatasetsFrameFlow"
    flow = draw(st.sampled_from([None, None, fname, fname + ":lt"]))
    if flow == fname and not sinks[0]:
        flow = None  # the stream class is guessed from the first container and the logical type: an empty one with an
        #              unspecified logical type is (legitimately) taken for quads and refused with a GRAPHS flow
    if flow == fname:
        logical = 0  # left unspecified in the options: the flow object alone decides
    return {"kind": "grouped_write", "integration": integration, "logical": logical, "arity": arity, "sinks": sinks, "flow": flow,
            # frame_size is irrelevant for grouped flows (a frame per graph / dataset) - so it must stay irrelevant
            "preset": draw(gen.preset_for(stmts)), "frame_size": draw(st.sampled_from([1, 2, 5, 250])), "delimited": True,
            "phys": "TRIPLES" if triples else "QUADS",
            "params": {"generalized": integration == "generic", "rdf_star": integration == "generic", "stream_name": ""}}


def body_grouped_write(case, acc):
    integ = case["integration"]
    opts = pyj.make_options(case)
    out = io.BytesIO()
    try:
        if integ == "generic":
            from pyjelly.integrations.generic import serialize as ser

            ser.grouped_stream_to_file((pyj.generic_sink(s) for s in case["sinks"]), out, options=opts)
        else:
            from pyjelly.integrations.rdflib import serialize as ser

            ser.grouped_stream_to_file((scen.rdflib_container(s, case["phys"]) for s in case["sinks"]), out, options=opts)
    except Exception as exc:  # noqa: BLE001
        return Violation(f"C07:grouped-write-raises:{type(exc).__name__}", f"grouped_stream_to_file raised {exc!r}", case)
    data = out.getvalue()
    nonempty = [s for s in case["sinks"] if s]
    if acc is not None:
        shared = len(nonempty) >= 3
        acc.case(case, shared, ["integration_" + integ, "logical_%d" % case["logical"], "flow_" + str(case.get("flow")),
                                "sinks_%d" % len(case["sinks"])] + (["has_empty_sink"] if len(nonempty) < len(case["sinks"]) else []))
    if not data:
        if nonempty:
            return Violation("C07:grouped-write-empty", "nothing written for non-empty inputs", case)
        return None
    res = jellyref.decode(data, True, "strict")
    if res.error is not None:
        return Violation("C07:grouped-write-invalid", f"R rejects the output: {res.error}", case)
    frames_with_stmts = [[e for e in fe if e[0] != "prefix"] for fe in res.frame_events]
    frames_with_stmts = [f for f in frames_with_stmts if f]
    if len(frames_with_stmts) != len(nonempty):
        return Violation("C07:grouped-write-frame-count", f"{len(nonempty)} non-empty inputs but {len(frames_with_stmts)} "
                         f"frames carry statements", case)
    for j, (fe, inp) in enumerate(zip(frames_with_stmts, nonempty)):
        if integ == "generic":
            want = [[list(T.norm(t)) for t in s] for s in inp]
            if norm_events(fe) != want:
                return Violation("C07:grouped-write-frame-content", f"frame {j} does not decode to input {j}", case)
        else:
            cont = scen.rdflib_container(inp, case["phys"])
            ws = {T.norm_stmt(s) for s in pyj.sink_events(cont, "rdflib")}
            if {T.norm_stmt(e) for e in fe} != ws:
                return Violation("C07:grouped-write-frame-content", f"frame {j} does not decode to input {j}", case)
    return None


# --------------------------------------------------------------------------- (d)
@st.composite
def dataset_graphs_case(draw):
    """An rdflib Dataset with several graphs through ONE stream_frames call of a TripleStream with a GRAPHS logical type
    (one frame per graph is the documented behaviour of that combination)."""
    stmts = draw(gen.statement_seq(arity=4, mode="rdflib", max_len=10, min_len=2, pool_max=3))
    return {"kind": "dataset_graphs", "statements": stmts, "logical": draw(st.sampled_from([3, 13])), "phys": "TRIPLES",
            "frame_size": draw(st.sampled_from([1, 3, 250])), "preset": draw(gen.preset_for(stmts)), "delimited": True,
            "entry": draw(st.sampled_from(["stream_frames", "serialize"])),
            "params": {"generalized": False, "rdf_star": False, "stream_name": ""}}


def body_dataset_graphs(case, acc):
    from pyjelly.integrations.rdflib import serialize as ser

    ds = scen.rdflib_container(case["statements"], "QUADS")
    stream = pyj.make_stream(case, "rdflib")
    try:
        if case["entry"] == "stream_frames":
            data = pyj.frames_to_bytes(ser.stream_frames(stream, ds), True)
        else:
            data = ds.serialize(format="jelly", encoding="jelly", stream=stream, options=stream.options)
    except Exception as exc:  # noqa: BLE001
        return Violation(f"C07:dataset-graphs-raises:{type(exc).__name__}", f"{exc!r}", case)
    want = []
    for g in ds.graphs():
        trip = sorted(repr(T.norm_stmt([T.from_rdflib(a), T.from_rdflib(b), T.from_rdflib(c)])) for a, b, c in g)
        if trip:
            want.append(trip)
    if acc is not None:
        single = any(len(t) == 1 for t in want)
        acc.case(case, len(want) >= 3 and single, ["dataset_graphs_%d" % min(len(want), 5)] + (["has_single_triple_graph"] if single else []))
    res = jellyref.decode(data, True, "strict")
    if res.error is not None:
        return Violation("C07:dataset-graphs-invalid", f"R rejects the output: {res.error}", case)
    got = [sorted(repr(T.norm_stmt(e)) for e in fe if e[0] != "prefix") for fe in res.frame_events]
    got = [f for f in got if f]
    if sorted(got) != sorted(want):
        return Violation("C07:dataset-graphs-frames", f"the Dataset has {len(want)} non-empty graphs with {sorted(map(len, want))} "
                         f"triples; the frames that carry statements hold {sorted(map(len, got))}", case)
    return None


def body(case, acc):
    if case["kind"] == "reframe":
        return body_reframe(case, acc)
    if case["kind"] == "dataset_graphs":
        return body_dataset_graphs(case, acc)
    return body_grouped_write(case, acc)


def check_case(case):
    if case["kind"] == "reframe":
        case = {**case, "allow_f10": True}
        return body_reframe(case, Acc())
    return body(case, None)


def run_partitions(spec) -> Acc:
    """Exhaustive: every partition into non-empty frames (2^(rows-1) of them) of generated streams with <= 12 rows."""
    from vlib.harness import draw_examples

    acc = Acc()
    acc.MAX_SAMPLES = 1
    known = set(spec["known"])
    srcs = draw_examples(reframe_case(), spec["n"] * 4, spec["seed"] * 1000 + spec["shard"])
    done = 0
    for c in srcs:
        src = c["src"]
        try:
            data, _ = source_bytes(src)
        except Exception:  # noqa: BLE001
            continue
        if not data:
            continue
        n = sum(len(wire.split_frame_raw(f)[0]) for f in wire.split_delimited(data))
        if not 3 <= n <= 12:
            continue
        done += 1
        for mask in range(1 << (n - 1)):
            case = {"kind": "reframe", "src": src, "style": "mask", "mask": mask, "cuts": [], "metas": c["metas"][:1]}
            v = body_reframe(case, acc)
            if v is not None:
                if v.signature in known:
                    acc.known_hits[v.signature] += 1
                else:
                    acc.violations.append(v.to_json())
                    return acc
        if done >= spec["n"]:
            break
    acc.extra["streams_with_all_partitions"] = done
    return acc


def run_shard(spec) -> Acc:
    if spec["part"] == "partitions":
        return run_partitions(spec)
    acc = Acc()
    strat = {"reframe": reframe_case, "grouped_write": grouped_write_case, "dataset_graphs": dataset_graphs_case}[spec["part"]]()
    hyp_search(strat, body, acc, seed=spec["seed"] * 1000 + spec["shard"], max_examples=spec["n"], known=set(spec["known"]))
    return acc


def plan(tier, seed):
    n = 250 if tier == "quick" else 4000
    return ([{"part": "reframe", "shard": i, "n": n} for i in range(10)]
            + [{"part": "grouped_write", "shard": 100 + i, "n": n} for i in range(5)]
            + [{"part": "dataset_graphs", "shard": 150 + i, "n": n} for i in range(2)]
            + [{"part": "partitions", "shard": 200 + i, "n": 1 if tier == "quick" else 12} for i in range(4 if tier == "quick" else 16)])
