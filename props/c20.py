"""C20 - a rejected statement never poisons the rest of the stream."""
from __future__ import annotations

import io

from hypothesis import strategies as st

from vlib import env  # noqa: F401
from vlib import gen, jellyref, pyj
from vlib import terms as T
from vlib.harness import Acc, Violation, hyp_search

ID = "C20"
LEVEL = "fault_enumeration"
RULE = (
    "Hypothesis + enumeration: statement sequences (2..8) with 1..3 designated poison positions x rejection cause "
    "{unsupported Python object, typed literal while max_datatypes=0, tuple too short, non-iterable, (rdflib) Literal as "
    "graph name, rdflib Variable as term, unsupported graph id of GraphStream.graph, a statement with more namespaces than the "
    "prefix table has slots} x slot {s, p, o, g, nested s/p/o of a "
    "quoted triple} x TripleStream / QuadStream / GraphStream x generic / rdflib term encoder, driven statement by "
    "statement in a catch-and-continue loop (frames written as they appear, final flush of the flow) x what the caller does "
    "how a statement is handed over {tuple, one-shot iterator} x what the caller does after a rejection {carries on, calls enroll() again as every integration helper does, hands the rest to the "
    "integration's stream_frames(stream, ...) with the same stream}. accepted := the "
    "statements whose call returned. Oracle: the reference decoder R (unclosed graph at end allowed; a graph start while a "
    "graph is open closes it) decodes all bytes written to exactly the accepted statements in order - which is satisfied "
    "both by 'no trace' and by 'stream refuses further use' - and the bytes written before each failure decode to a prefix "
    "of what had been accepted before it. non-trivial = the statement following a poison shares >=1 slot value or IRI "
    "string with the rejected statement; distinct by case hash. The quick tier also enumerates position x slot x cause "
    "exhaustively for a fixed 4-statement sequence per stream class and encoder."
)
ASSUMPTIONS = [
    "the caller catches Exception and carries on with the same stream object, flushing stream.flow at the end",
]

CAUSES_GENERIC = ["unsupported", "typed_literal_disabled", "short_tuple", "non_iterable", "nested_unsupported", "bad_graph_id",
                  "table_overflow"]
CAUSES_RDFLIB = ["unsupported", "typed_literal_disabled", "short_tuple", "non_iterable", "literal_graph", "variable", "bad_graph_id",
                 "table_overflow"]


@st.composite
def poison_case(draw):
    integration = draw(st.sampled_from(["generic", "rdflib"]))
    phys = draw(st.sampled_from(["TRIPLES", "QUADS", "GRAPHS"]))
    arity = 3 if phys == "TRIPLES" else 4
    mode = "rdflib" if integration == "rdflib" else draw(st.sampled_from(["gen", "rdf11"]))
    stmts = draw(gen.statement_seq(arity=arity, mode=mode, max_len=8, min_len=2, pool_max=4))
    n_poison = draw(st.integers(1, min(3, len(stmts))))
    causes = CAUSES_GENERIC if integration == "generic" else CAUSES_RDFLIB
    poisons = []
    for _ in range(n_poison):
        cause = draw(st.sampled_from(causes))
        slot = draw(st.sampled_from("spog"[:arity]))
        if cause == "literal_graph":
            slot = "g"
        if cause in ("literal_graph", "bad_graph_id") and arity == 3:
            cause = "unsupported"
        poisons.append({"pos": draw(st.integers(0, len(stmts) - 1)), "cause": cause, "slot": slot,
                        "nested_slot": draw(st.sampled_from("spo"))})
    if any(p["cause"] == "table_overflow" for p in poisons):
        # a prefix table that holds the ordinary statements (their IRIs all share one namespace after rewriting, see
        # run_case) but not the poisoned one, which uses a different namespace in every slot
        preset = [16, 1, 0 if any(p["cause"] == "typed_literal_disabled" for p in poisons) else 8]
    elif any(p["cause"] == "typed_literal_disabled" for p in poisons):
        preset = [draw(st.sampled_from([8, 16, 4000])), draw(st.sampled_from([0, 4, 150])), 0]
    else:
        preset = draw(gen.preset_for(stmts))
    return {"integration": integration, "phys": phys, "statements": stmts, "poisons": poisons, "preset": preset,
            "after_failure": draw(st.sampled_from(["carry_on", "carry_on", "enroll", "glue"])),
            # triple() / quad() take any iterable of terms: a tuple, or a one-shot iterator
            "as_iterator": draw(st.booleans()),
            "frame_size": draw(st.sampled_from([1, 2, 3, 5, 250])), "logical": 1 if phys == "TRIPLES" else 2,
            "delimited": True, "params": {"generalized": True, "rdf_star": True, "stream_name": ""}}


class _Unsupported:
    def __repr__(self):
        return "<unsupported>"


def strip_datatypes(t):
    if t[0] == "lit" and t[3]:
        return ["lit", t[1], t[2], None]
    if t[0] == "triple":
        return ["triple", *[strip_datatypes(x) for x in t[1:]]]
    return t


def sabotage(objs, poison, integration, neutral):
    """Return the poisoned call argument for a statement whose good terms are `objs`."""
    cause, slot = poison["cause"], poison["slot"]
    j = "spog".index(slot)
    j = min(j, len(objs) - 1)
    objs = list(objs)
    if cause == "unsupported":
        objs[j] = _Unsupported()
    elif cause == "typed_literal_disabled":
        if integration == "generic":
            from pyjelly.integrations.generic.generic_sink import Literal

            objs[j] = Literal("5", None, "http://www.w3.org/2001/XMLSchema#integer")
        else:
            import rdflib

            objs[min(j, 2) if j != 3 else 2] = rdflib.Literal("5", datatype=rdflib.XSD.integer)
            if j not in (2,):
                objs[2] = rdflib.Literal("5", datatype=rdflib.XSD.integer)
    elif cause == "table_overflow":
        conv = T.to_generic if integration == "generic" else T.to_rdflib
        for k in range(min(3, len(objs))):
            objs[k] = conv(["iri", "http://overflow%d.example/x" % k])
    elif cause == "short_tuple":
        return tuple(objs[:-1]) if j % 2 == 0 else tuple(objs[:1])
    elif cause == "non_iterable":
        return 5
    elif cause == "nested_unsupported":
        from pyjelly.integrations.generic.generic_sink import Triple

        inner = [T.to_generic(neutral[0]) if neutral[0][0] != "default" else T.to_generic(["bnode", "x"]),
                 T.to_generic(neutral[1]), T.to_generic(neutral[2])]
        inner["spo".index(poison["nested_slot"])] = _Unsupported()
        objs[min(j, 2)] = Triple(*inner)
    elif cause == "literal_graph":
        import rdflib

        objs[3] = rdflib.Literal("g")
    elif cause == "variable":
        import rdflib

        objs[j] = rdflib.Variable("v")
    return tuple(objs)


def run_case(case):
    """-> (data, accepted_neutral, failure_marks[(bytes_len, accepted_count)], n_failed, later_accepts)"""
    integration, phys = case["integration"], case["phys"]
    stmts = [list(s) for s in case["statements"]]
    if any(p["cause"] == "typed_literal_disabled" for p in case["poisons"]):
        stmts = [[strip_datatypes(t) for t in s] for s in stmts]
    if any(p["cause"] == "table_overflow" for p in case["poisons"]):
        # max_prefixes = 1: every ordinary IRI is moved into one namespace so that only the poisoned statement overflows
        def one_ns(t):
            if t[0] == "iri":
                return ["iri", "http://one.example/" + t[1].replace("/", "_").replace("#", "_")]
            if t[0] == "triple":
                return ["triple", *[one_ns(x) for x in t[1:]]]
            return t
        stmts = [[one_ns(t) for t in s] for s in stmts]
    poison_at = {}
    for p in case["poisons"]:
        poison_at.setdefault(p["pos"], p)
    stream = pyj.make_stream(case, integration)
    out = io.BytesIO()
    from pyjelly.serialize.ioutils import write_delimited

    conv = T.to_generic if integration == "generic" else T.to_rdflib
    accepted = []
    marks = []
    failed = 0
    stream.enroll()

    def emit(frame):
        if frame is not None:
            write_delimited(frame, out)

    def expected(s):
        if integration == "generic":
            return [list(T.norm(t)) for t in s]
        return [list(T.norm(T.rdflib_canon(t))) for t in s]

    i = 0
    n = len(stmts)
    for k, pk in list(poison_at.items()):
        if pk["cause"] == "table_overflow":
            # not a sabotaged call but a well-formed statement that may not fit the tables: accepted or refused
            stmts[k] = [["iri", "http://overflow%d.example/x" % j] if j < 3 else t for j, t in enumerate(stmts[k])]
            del poison_at[k]
    while i < n:
        s = stmts[i]
        objs = tuple(conv(t) for t in s)
        p = poison_at.get(i)
        if phys in ("TRIPLES", "QUADS"):
            arg = sabotage(objs, p, integration, s) if p and p["cause"] != "bad_graph_id" else objs
            if p and p["cause"] == "bad_graph_id":
                arg = sabotage(objs, {**p, "cause": "unsupported", "slot": "g"}, integration, s)
            if case.get("as_iterator") and isinstance(arg, tuple):
                arg = iter(arg)
            try:
                frame = stream.triple(arg) if phys == "TRIPLES" else stream.quad(arg)
            except Exception:  # noqa: BLE001
                failed += 1
                marks.append((out.tell(), len(accepted)))
                how = case.get("after_failure", "carry_on")
                if how == "enroll":
                    # a caller that starts every batch with enroll(), as the integration helpers do
                    try:
                        stream.enroll()
                    except Exception:  # noqa: BLE001
                        pass
                elif how == "glue" and not any(k > i for k in poison_at):
                    # the rest goes through the integration's stream_frames(stream, statements) with the same stream
                    if integration == "generic":
                        from pyjelly.integrations.generic.serialize import stream_frames
                    else:
                        from pyjelly.integrations.rdflib.serialize import stream_frames
                    pulled = []

                    def rest(lo=i + 1):
                        for k in range(lo, n):
                            pulled.append(k)
                            yield pyj.conv_stmts([stmts[k]], integration)[0]

                    try:
                        for frame in stream_frames(stream, rest()):
                            emit(frame)
                    except Exception:  # noqa: BLE001
                        failed += 1
                        for k in pulled[:-1]:
                            accepted.append(expected(stmts[k]))
                        marks.append((out.tell(), len(accepted)))
                    else:
                        for k in pulled:
                            accepted.append(expected(stmts[k]))
                    break
            else:
                emit(frame)
                accepted.append(expected(s))
            i += 1
            continue
        # GRAPHS: maximal run of equal graph names, driven through GraphStream.graph with an instrumented iterator
        j = i
        while j < n and stmts[j][3] == s[3]:
            j += 1
        gid = objs[3]
        if p and p["cause"] == "bad_graph_id":
            gid = _Unsupported()
        pulled = []

        def triples(lo=i, hi=j):
            for k in range(lo, hi):
                pk = poison_at.get(k)
                tri = tuple(conv(t) for t in stmts[k][:3])
                if pk and pk["cause"] != "bad_graph_id":
                    q = sabotage((*tri, None), {**pk, "slot": pk["slot"] if pk["slot"] != "g" else "o"}, integration, stmts[k])
                    tri = q[:3] if isinstance(q, tuple) and len(q) == 4 else q
                    if isinstance(q, tuple) and len(q) < 4:
                        tri = q[:2]
                pulled.append(k)
                yield iter(tri) if case.get("as_iterator") and isinstance(tri, tuple) else tri

        try:
            for frame in stream.graph(gid, triples()):
                emit(frame)
        except Exception:  # noqa: BLE001
            failed += 1
            if case.get("after_failure") == "enroll":
                try:
                    stream.enroll()
                except Exception:  # noqa: BLE001
                    pass
            done = pulled[:-1] if pulled else []
            for k in done:
                accepted.append(expected(stmts[k]))
            marks.append((out.tell(), len(accepted)))
            nxt = (pulled[-1] + 1) if pulled else j  # bad graph id: the whole run is rejected
            i = nxt
            if p and p["cause"] == "bad_graph_id":
                poison_at.pop(i - 1, None)
            continue
        for k in pulled:
            accepted.append(expected(stmts[k]))
        i = j
    emit(stream.flow.to_stream_frame())
    return out.getvalue(), accepted, marks, failed


def body(case, acc):
    try:
        data, accepted, marks, failed = run_case(case)
    except Exception as exc:  # noqa: BLE001
        import traceback

        return Violation(f"C20:driver-raises:{type(exc).__name__}", f"unexpected exception outside statement calls: "
                         f"{exc!r} {traceback.format_exc()[-400:]}", case)
    if acc is not None:
        stmts = case["statements"]
        nt = False
        for p in case["poisons"]:
            k = p["pos"]
            if k + 1 < len(stmts):
                a, b = stmts[k], stmts[k + 1]
                if any(x == y for x, y in zip(a, b)) or set(i for t in a for i in T.iris_of(t)) & set(
                        i for t in b for i in T.iris_of(t)):
                    nt = True
        labels = ["integration_" + case["integration"], "phys_" + case["phys"]] + [
            "cause_" + p["cause"] for p in case["poisons"]] + ["slot_" + p["slot"] for p in case["poisons"]]
        if failed:
            labels.append("had_rejection")
            labels.append("after_failure_" + case.get("after_failure", "carry_on"))
        acc.case(case, nt and failed > 0, labels)
    mode = "lenient-brackets" if case["phys"] == "GRAPHS" else "prefix"
    res = jellyref.decode(data, True, mode=mode)
    if res.error is not None and not (isinstance(res.error, jellyref.SpecViolation) and res.error.kind == "no-options-row" and not accepted):
        if res.error.kind == "graph-not-closed":
            pass
        else:
            return Violation(f"C20:corrupt-after-rejection:{res.error.kind}", f"after {failed} rejected statement(s) the "
                             f"bytes written are not decodable: {res.error}", case)
    got = [[list(T.norm(t)) for t in s] for s in res.statements]
    if got != accepted:
        i = next((i for i, (a, b) in enumerate(zip(got, accepted)) if a != b), min(len(got), len(accepted)))
        return Violation("C20:accepted-statements-differ", f"{failed} rejection(s); bytes decode to {len(got)} statements, "
                         f"{len(accepted)} were accepted; first difference at {i}: "
                         f"{got[i] if i < len(got) else None!r} vs accepted {accepted[i] if i < len(accepted) else None!r}", case)
    for blen, cnt in marks:
        pre = jellyref.decode_prefix_tolerant(data[:blen], mode=mode)
        if pre.error is not None and pre.error.kind not in ("no-options-row", "graph-not-closed"):
            return Violation("C20:prefix-not-decodable", f"bytes written before a failure are invalid: {pre.error}", case)
        pg = [[list(T.norm(t)) for t in s] for s in pre.statements]
        if pg != accepted[:len(pg)] or len(pg) > cnt:
            return Violation("C20:prefix-differs", "bytes written before a failure are not a prefix of the accepted statements", case)
    return None


def check_case(case):
    return body(case, None)


def enumerate_cases():
    """Exhaustive position x slot x cause for a fixed 4-statement sequence per stream class and encoder."""
    base3 = [
        [["iri", "http://ex.org/a"], ["iri", "http://ex.org/p"], ["lit", "x", None, None]],
        [["iri", "http://ex.org/a"], ["iri", "http://ex.org/q"], ["iri", "http://ex.org/ns2/b"]],
        [["iri", "http://ex.org/a"], ["iri", "http://ex.org/q"], ["iri", "http://ex.org/ns2/c"]],
        [["bnode", "b"], ["iri", "http://ex.org/q"], ["iri", "http://ex.org/ns2/c"]],
    ]
    graphs = [["iri", "http://ex.org/g"], ["iri", "http://ex.org/g"], ["default"], ["bnode", "g2"]]
    for integration in ("generic", "rdflib"):
        causes = CAUSES_GENERIC if integration == "generic" else CAUSES_RDFLIB
        for phys in ("TRIPLES", "QUADS", "GRAPHS"):
            arity = 3 if phys == "TRIPLES" else 4
            stmts = [s + ([g] if arity == 4 else []) for s, g in zip(base3, graphs)]
            for pos in range(4):
                for slot in "spog"[:arity]:
                    for cause in causes:
                        if cause in ("literal_graph", "bad_graph_id") and arity == 3:
                            continue
                        if cause == "literal_graph" and slot != "g":
                            continue
                        for nested in ("spo" if cause == "nested_unsupported" else "s"):
                            preset = [8, 4, 0] if cause == "typed_literal_disabled" else [8, 4, 4]
                            for after, as_it in (("carry_on", False), ("carry_on", True), ("enroll", False), ("glue", True)):
                                yield {"as_iterator": as_it,"integration": integration, "phys": phys, "statements": stmts,
                                       "poisons": [{"pos": pos, "cause": cause, "slot": slot, "nested_slot": nested}],
                                       "preset": preset, "after_failure": after, "frame_size": 3,
                                       "logical": 1 if phys == "TRIPLES" else 2, "delimited": True,
                                       "params": {"generalized": True, "rdf_star": True, "stream_name": ""}}


def run_shard(spec) -> Acc:
    acc = Acc()
    if spec.get("part") == "enum":
        known = set(spec["known"])
        seen = set()
        for case in enumerate_cases():
            v = body(case, acc)
            if v is not None and v.signature not in known and v.signature not in seen:
                seen.add(v.signature)
                v.case = case
                acc.violations.append(v.to_json())
        acc.extra["enumerated_position_slot_cause"] = acc.evaluations
        return acc
    hyp_search(poison_case(), body, acc, seed=spec["seed"] * 1000 + spec["shard"],
               max_examples=spec["n"], known=set(spec["known"]))
    return acc


def plan(tier, seed):
    n = 300 if tier == "quick" else 6000
    return [{"part": "enum"}] + [{"shard": i, "n": n} for i in range(15)]
