"""C19 - compression contract: send each string once, elide repeats, use deltas."""
from __future__ import annotations

from hypothesis import strategies as st

from vlib import env  # noqa: F401
from vlib import gen, jellyenc, jellyref, scen
from vlib import terms as T
from vlib.harness import Acc, Violation, hyp_search

ID = "C19"
LEVEL = "exploration"
RULE = (
    "Hypothesis: write cases of C01/C02 (both integrations, all entry points, boundary presets) plus dedicated cases "
    "with tables >= number of distinct strings and 'wide' cases (9..40 distinct prefixes / names / datatypes revisited, that "
    "kind's table large enough for all, the other tables minimal) and C14's namespace-declaration cases (clauses i and iii only); every emitted stream is audited row by row by the reference decoder: "
    "(i) no entry row whose value is resident in that table when the row is processed (=> with large tables each string "
    "is sent exactly once); (ii) no statement row carries a term in a slot where the input term equals the previous "
    "statement's input term in that slot (integration equality; sequence inputs) resp. resolves to the previous row's "
    "term (containers); (iii) entry id, prefix id, name id are 0 whenever the delta rule would resolve 0 to the same "
    "value; (iv) generic GRAPHS streams written from a statement sequence have one graph start per maximal run of equal "
    "graph names; (v) total bytes <= bytes of the naive one-entry-per-use encoding. non-trivial = the case offered an "
    "opportunity for each of (i)-(iii): a lookup hit, a repeated term and a sequential id; distinct by case hash."
)
ASSUMPTIONS = [
    "(ii) uses input equality, so a plain literal followed by the same literal typed xsd:string is not a missed elision",
    "the naive encoding is computed by my own encoder (one entry per use, explicit ids, no elision, one graph per quad)",
]


@st.composite
def wide_case(draw):
    """Many distinct strings of ONE kind, revisited, with that kind's table large enough for all of them and the other
    tables as small as the statements allow: nothing may be sent twice, whatever the other tables' sizes are."""
    c = draw(scen.generic_write_case(max_len=1))
    kind = draw(st.sampled_from(["prefix", "prefix", "name", "datatype", "one_slot"]))
    if kind == "one_slot":
        # tables with a single slot that every statement overwrites: one IRI / one datatype per statement, changing
        # namespace / datatype from statement to statement (the id stays 1: every zero form remains available)
        m = draw(st.integers(3, 12))
        which = draw(st.sampled_from(["prefix", "datatype", "both"]))
        stmts = []
        for i in range(m):
            ns = "http://n%d.example/" % draw(st.integers(0, 2)) if which != "datatype" else "http://n.example/"
            dt = "http://dt.example/t%d" % draw(st.integers(0, 2)) if which != "prefix" else None
            st_ = [["iri", ns + "x%d" % (i % 3)], ["bnode", "p"], ["lit", "v%d" % i, None, dt]]
            if c["phys"] != "TRIPLES":
                st_.append(["default"] if c["phys"] == "QUADS" else ["bnode", "g"])
            stmts.append(st_)
        if c["entry"] in ("sink_serialize", "flat_to_file_default", "grouped_to_file_default"):
            c["entry"] = "stream_frames_gen"
            c["frame_size"] = draw(gen.frame_sizes)
        c["statements"] = stmts
        c["preset"] = [8, 1, 1 if which != "prefix" else draw(st.sampled_from([0, 1]))]
        c["wide"] = "one_slot_" + which
        return c
    n = draw(st.integers(9, 40))
    first = list(range(n))
    again = draw(st.lists(st.integers(0, n - 1), min_size=3, max_size=20))
    stmts = []
    for i in first + again:
        s_ = ["iri", "http://s.example/a"]
        o_ = ["lit", "v", None, None]
        if kind == "prefix":
            s_ = ["iri", "http://p%d.example/ns#a" % i]
        elif kind == "name":
            s_ = ["iri", "http://s.example/n%d" % i]
        else:
            o_ = ["lit", "v", None, "http://dt.example/t%d" % i]
        st_ = [s_, ["iri", "http://s.example/p"], o_]
        if c["phys"] != "TRIPLES":
            st_.append(["default"] if c["phys"] == "QUADS" else ["iri", "http://s.example/g"])
        stmts.append(st_)
    big = draw(st.sampled_from([n + 2, n + 3, 150, 4000]))
    preset = [max(8, big) if kind == "name" else 8, big if kind == "prefix" else 2, big if kind == "datatype" else 1]
    if c["entry"] in ("sink_serialize", "flat_to_file_default", "grouped_to_file_default"):
        c["entry"] = "stream_frames_gen"  # an entry point that takes the preset
        c["frame_size"] = draw(gen.frame_sizes)
    c["statements"] = stmts
    c["preset"] = preset
    c["wide"] = kind
    return c


@st.composite
def case_strategy(draw):
    k = draw(st.integers(0, 5))
    if k == 4:
        return draw(wide_case())
    if k == 5:
        # streams with namespace declarations (C14's cases, option switched on): the IRI inside a declaration row goes
        # through the same tables and delta rules as any other
        from props import c14

        c = draw(c14.ns_case())
        c["ns_case"] = True
        return c
    if k == 0:
        c = draw(scen.rdflib_write_case())
    else:
        c = draw(scen.generic_write_case())
        if k == 1:  # dedicated: tables large enough for everything
            c["preset"] = [4000, 150, 32]
    return c


def write(case):
    if case.get("ns_case"):
        from props import c14

        return c14.write(case, c14.build_source(case), True)
    if case["integration"] == "generic":
        return scen.write_generic(case)
    return scen.write_rdflib(case)


def body(case, acc):
    try:
        data, delimited = write(case)
    except Exception as exc:  # noqa: BLE001
        if case.get("ns_case"):
            return None  # C14's cases include tables too small for a statement: refusals are its subject
        return Violation(f"C19:write-raises:{type(exc).__name__}", f"serialisation raised {exc!r}", case)
    if not data:
        if acc is not None:
            acc.case(case, False, ["empty_output"])
        return None
    res = jellyref.decode(data, delimited, mode="strict")
    if res.error is not None:
        return Violation("C19:invalid-stream", f"reference decoder rejects the output ({res.error}); see C03", case)
    stmts = case["statements"]
    sequence_input = case["integration"] == "generic" or case["entry"] in ("flat_to_file", "flat_to_file_default")
    # opportunities
    had_hit = had_repeat = had_seq = False
    stmt_rows = [a for a in res.audit if a["kind"] in ("triple", "quad")]
    viol = None
    sent: dict[str, set] = {"name": set(), "prefix": set(), "datatype": set()}
    for a in res.audit:
        if a.get("table"):
            if a["resident"] and viol is None:
                viol = Violation(f"C19:redundant-entry:{a['table']}", f"{a['table']} entry {a['value']!r} sent at frame "
                                 f"{a['frame']} row {a['row']} while resident", case)
            if a["zero_possible"]:
                had_seq = True
                if a["raw_id"] != 0 and viol is None:
                    viol = Violation(f"C19:missed-zero:entry-id:{a['table']}", f"{a['table']} entry id {a['raw_id']} "
                                     f"written explicitly although it is last+1", case)
            sent[a["table"]].add(a["value"])
        for i in a.get("iris", ()):
            if i.get("prefix_zero_possible") and viol is None:
                viol = Violation("C19:missed-zero:prefix-id", f"prefix id {i['raw_prefix_id']} repeated explicitly at "
                                 f"frame {a['frame']} row {a['row']}", case)
            if i.get("name_zero_possible") and viol is None:
                viol = Violation("C19:missed-zero:name-id", f"name id {i['raw_name_id']} written explicitly although "
                                 f"previous+1 at frame {a['frame']} row {a['row']}", case)
            if i["raw_name_id"] == 0 or (i["raw_prefix_id"] == 0 and i["prefix_id"] != 0):
                had_seq = True
    if case.get("ns_case"):
        if acc is not None:
            n_decl = sum(1 for a in res.audit if a["kind"] == "namespace")
            acc.case(case, n_decl >= 1 and had_seq, ["namespace_declaration_rows"] if n_decl else ["ns_case_without_declarations"])
        return viol
    # hits: an IRI/datatype use without a preceding entry row in the same statement group
    n_entries = sum(1 for a in res.audit if a.get("table"))
    n_uses = sum(len(a.get("iris", ())) for a in res.audit)
    had_hit = n_uses > 0 and n_entries < 2 * n_uses
    # (ii) elisions
    slots = "spog"
    if sequence_input and len(stmt_rows) == len(stmts):
        conv = T.to_generic if case["integration"] == "generic" else T.to_rdflib
        prev = None
        for a, s in zip(stmt_rows, stmts):
            objs = [conv(t) for t in s]
            width = 4 if a["kind"] == "quad" else 3
            if prev is not None:
                for j in range(width):
                    if objs[j] == prev[j]:
                        had_repeat = True
                        if slots[j] not in a["elided"] and viol is None:
                            viol = Violation(f"C19:missed-elision:{slots[j]}", f"statement at frame {a['frame']} row "
                                             f"{a['row']} repeats its {slots[j]} term explicitly", case)
            prev = objs
    elif not any(t[0] == "lit" and t[3] == T.XSD_STRING for s in stmts for t in s):
        dec = [e for e in res.events if e[0] != "prefix"]
        prev = None
        for a, e in zip(stmt_rows, dec):
            width = 4 if a["kind"] == "quad" else 3
            if prev is not None:
                for j in range(width):
                    if e[j] == prev[j]:
                        had_repeat = True
                        if slots[j] not in a["elided"] and viol is None:
                            viol = Violation(f"C19:missed-elision:{slots[j]}", f"statement at frame {a['frame']} row "
                                             f"{a['row']} repeats its {slots[j]} term explicitly", case)
            prev = e
    # (iv) graph runs
    if viol is None and case["phys"] == "GRAPHS" and case["integration"] == "generic":
        runs = 0
        prevg = None
        for s in stmts:
            g = T.to_generic(s[3])
            if prevg is None or g != prevg:
                runs += 1
            prevg = g
        starts = sum(1 for a in res.audit if a["kind"] == "graph_start")
        if starts != runs:
            viol = Violation("C19:graph-start-per-quad", f"{starts} graph starts for {runs} runs of equal graph names", case)
    # (v) size
    kinds = [a["kind"] for a in res.audit]
    has_empty_graph = any(k == "graph_start" and kinds[i + 1:i + 2] == ["graph_end"] for i, k in enumerate(kinds))
    # an empty graph block (rdflib Datasets always carry their default graph) is content the naive per-quad encoding
    # has no counterpart for: the size bound is not asserted for such streams
    if viol is None and stmts and not has_empty_graph:
        ground = stmts
        if not sequence_input:
            ground = [[list(t) for t in e] for e in res.events if e[0] != "prefix"]
        naive = jellyenc.naive_size(ground, case["phys"], case["preset"], options=res.options)
        actual = sum(len(f) for f in (__import__("vlib.wire", fromlist=["x"]).split_delimited(data) if delimited else [data]))
        # compare row payloads only (frame envelopes are a framing choice, not compression)
        rows_actual = 0
        from vlib import wire
        for f in (wire.split_delimited(data) if delimited else [data]):
            rows, _ = wire.split_frame_raw(f)
            rows_actual += sum(len(wire.f_len(1, r)) for r in rows)
        if rows_actual > naive:
            viol = Violation("C19:larger-than-naive", f"rows take {rows_actual} bytes, naive encoding {naive}", case)
    if acc is not None:
        labels = []
        if had_hit:
            labels.append("lookup_hit")
        if had_repeat:
            labels.append("repeat_opportunity")
        if had_seq:
            labels.append("sequential_id")
        if case["preset"] == [4000, 150, 32]:
            labels.append("large_tables")
        labels.append("integration_" + case["integration"])
        if case.get("wide"):
            labels.append("wide_" + case["wide"])
        acc.case(case, had_hit and had_repeat and had_seq, labels)
    # (i) strengthened for large tables: each distinct string exactly once
    if viol is None and res.options is not None:
        # whatever the other tables' sizes: a table whose ADVERTISED size holds every distinct string of its kind
        advertised = {"name": res.options.get("max_name_table_size", 0), "prefix": res.options.get("max_prefix_table_size", 0),
                      "datatype": res.options.get("max_datatype_table_size", 0)}
        for kind in ("name", "prefix", "datatype"):
            values = [a["value"] for a in res.audit if a.get("table") == kind]
            if len(values) != len(set(values)) and len(set(values)) <= advertised[kind]:
                viol = Violation(f"C19:redundant-entry:{kind}", f"a {kind} string was sent more than once although the "
                                 f"advertised table ({advertised[kind]}) holds all {len(set(values))} distinct ones", case)
    return viol


def check_case(case):
    return body(case, None)


def run_shard(spec) -> Acc:
    acc = Acc()
    hyp_search(case_strategy(), body, acc, seed=spec["seed"] * 1000 + spec["shard"],
               max_examples=spec["n"], known=set(spec["known"]))
    return acc


def plan(tier, seed):
    n = 400 if tier == "quick" else 6000
    return [{"shard": i, "n": n} for i in range(16)]
