"""C08 - delimited vs non-delimited framing is always detected correctly."""
from __future__ import annotations

import io

from hypothesis import strategies as st

from vlib import env  # noqa: F401
from vlib import gen, pyj, wire
from vlib import terms as T
from vlib.harness import Acc, Violation, hyp_search

ID = "C08"
LEVEL = "exploration"
RULE = (
    "(a) exhaustive: every 3-byte header of a stream whose first frame is empty or starts with a row, "
    "built from the grammar delimited = varint(L) frame, frame = 0A varint(r) row..., non-delimited = "
    "0A varint(r) 0A ..., for all L in [0,2^21] and all r that change the first three bytes (r >= 6: the "
    "first row of a valid stream is an options row of at least 4 bytes); ground truth = construction mode. "
    "(b) Hypothesis: the same options + statements written by pyjelly delimited (options-only first frame, "
    "leading empty frames, arbitrary cuts) and non-delimited (read from BytesIO and from non-seekable raw / buffered sources whose "
    "first reads deliver 1 and 2 bytes), stream names tuned so the options row / first "
    "frame are 8..12, 126..130 bytes; both must parse (both integrations) to the input. (c) the same statements through the "
    "serializer entry points that let the caller choose the mode (rdflib Graph.serialize with options+stream / with a "
    "stream only / to a destination, stream_frames of both integrations): first bytes classified as the requested mode, the mode get_options_and_frames reports to its caller equals it (streams with identical options rows read back to back in both orders), "
    "non-delimited output is one bare frame, both modes parse to the same content; and outputs tuned (literal padding) so that the non-delimited file is exactly 4096, 8192, 8193, 16384, 24576, 32768, 65536, 131072 bytes long parse to the statements written, once. "
    "non-trivial = header with 0x0A in >=2 positions or a multi-byte varint (a), first frame or options row "
    "of length 10 or >=128 (b); distinct by header bytes resp. case hash."
)
ASSUMPTIONS = [
    "only headers of valid streams: the first row of the first non-empty frame is an options row (>= 6 bytes as a row)",
    "the >= 3 bytes available precondition of the hint is C09's subject (short reads), not C08's",
]
MAGIC = 0x0A
MIN_ROW = 6


def hint(h: bytes) -> bool:
    from pyjelly.parse.ioutils import delimited_jelly_hint

    return delimited_jelly_hint(h)


# ------------------------------------------------------------------ (a) exhaustive
def headers_for_L(L: int):
    """All distinct 3-byte headers of delimited streams whose first frame has length L."""
    vl = wire.enc_varint(L)
    if L == 0:
        # empty first frame, then the rest of a delimited stream: another empty frame or varint(L2)...
        outs = set()
        for second in (b"\x00\x00", b"\x00\x0a", b"\x0a\x0a", b"\x7f\x0a", b"\x80\x01", b"\x8a\x01", b"\x0a\x7a"):
            outs.add(vl + second)
        for b1 in range(256):
            for b2 in (0x00, 0x0A, 0x01, 0x7F, 0x80, 0x8A):
                outs.add(bytes([0, b1, b2]))
        return outs
    if len(vl) >= 3:
        return {vl[:3]}
    if len(vl) == 2:
        return {vl + b"\x0a"}
    # one byte length: L, 0A, first byte of varint(r) with 1 + len(varint(r)) + r <= L
    outs = set()
    for r in range(MIN_ROW, L - 1):
        vr = wire.enc_varint(r)
        if 1 + len(vr) + r <= L:
            outs.add(vl + b"\x0a" + vr[:1])
    return outs


def nontrivial_header(h: bytes) -> bool:
    return sum(1 for b in h if b == MAGIC) >= 2 or any(b & 0x80 for b in h)


def run_exhaustive(spec) -> Acc:
    acc = Acc()
    lo, hi = spec["lo"], spec["hi"]
    seen = set()
    for L in range(lo, hi):
        for h in headers_for_L(L):
            acc.evaluations += 1
            if h in seen:
                continue
            seen.add(h)
            if hint(h) is not True:
                acc.violations.append(Violation(
                    "C08:header-delimited-misclassified",
                    f"delimited stream with first frame length {L} starts {h.hex()} but hint says non-delimited",
                    {"kind": "header", "mode": "delimited", "L": L, "header": h.hex()}).to_json())
                return acc
    if spec.get("nondelimited"):
        # r < 2^14 in full, beyond that the first three bytes only depend on r's low 14 bits
        for r in range(MIN_ROW, (1 << 14) + (1 << 14)):
            vr = wire.enc_varint(r)
            h = (b"\x0a" + vr + b"\x0a")[:3]
            acc.evaluations += 1
            if h in seen:
                continue
            seen.add(h)
            if hint(h) is not False:
                acc.violations.append(Violation(
                    "C08:header-nondelimited-misclassified",
                    f"non-delimited stream with first row length {r} starts {h.hex()} but hint says delimited",
                    {"kind": "header", "mode": "nondelimited", "r": r, "header": h.hex()}).to_json())
                return acc
    nt = [h for h in seen if nontrivial_header(h)]
    acc.nontrivial.update(h.hex() + ("n" if spec.get("nondelimited") and h[0] == MAGIC and h[1] != MAGIC else "") for h in nt)
    acc.samples = [{"kind": "header", "header": h.hex()} for h in sorted(nt)[:2]]
    acc.extra["headers_enumerated"] = len(seen)
    acc.extra["exhaustive"] = True
    acc.count("distinct_headers", len(seen))
    return acc


# ------------------------------------------------------------------ (b) end to end
@st.composite
def e2e_case(draw):
    arity = draw(st.sampled_from([3, 4]))
    stmts = draw(gen.statement_seq(arity=arity, mode="rdflib", max_len=6))
    target = draw(st.sampled_from([None, 8, 9, 10, 11, 12, 126, 127, 128, 129, 130, 16383, 16384]))
    name_len = draw(st.integers(0, 12))
    preset = draw(gen.preset_for(stmts))
    if draw(st.booleans()):
        preset = [draw(st.sampled_from([8, 127, 128])), 0, draw(st.sampled_from([0, 32]))] if not any(
            T.datatypes_of(t) for s in stmts for t in s) else preset
    return {
        "kind": "e2e",
        "statements": stmts,
        "phys": "TRIPLES" if arity == 3 else draw(st.sampled_from(["QUADS", "GRAPHS"])),
        "preset": preset,
        "target_options_row_len": target,
        "name_len": name_len,
        "flags": draw(st.booleans()),
        "leading_empty": draw(st.integers(0, 2)),
        "options_alone": draw(st.booleans()),
        "minimal_header": draw(st.integers(0, 3)) == 0,
        "cuts": draw(st.lists(st.integers(0, 40), max_size=4)),
    }


def _build_rows(case):
    """All rows of the stream, produced by pyjelly's own Stream API (generic encoder)."""
    phys = case["phys"]
    logical = 1 if phys == "TRIPLES" else 2
    case = dict(case)
    if case.get("minimal_header") and case["target_options_row_len"] is None and not any(T.datatypes_of(t) for s in case["statements"] for t in s):
        # smallest possible options row (6 bytes -> a 10-byte options-only frame): the 0A 0A xx corner
        logical = 0
        case["preset"] = [min(max(case["preset"][0], 8), 127), 0, 0]
        case["flags"] = False
    base = {"phys": phys, "logical": logical, "preset": case["preset"], "delimited": True,
            "flow": "ManualFrameFlow:lt",
            "params": {"generalized": case["flags"], "rdf_star": case["flags"], "stream_name": ""}}

    def rows_for(name):
        cfg = dict(base)
        cfg["params"] = dict(base["params"], stream_name=name)
        stream = pyj.make_stream(cfg, "generic")
        stream.enroll()
        stmts = pyj.conv_stmts(case["statements"], "generic")
        if phys == "TRIPLES":
            for s in stmts:
                stream.triple(s)
        elif phys == "QUADS":
            for s in stmts:
                stream.quad(s)
        else:
            for s in stmts:
                for _ in stream.graph(s[3], [s[:3]]):
                    pass
        return list(stream.flow)

    name = "n" * case["name_len"]
    tgt = case["target_options_row_len"]
    if tgt is not None:
        # tune the stream name so that the options *row* has exactly tgt bytes, if reachable
        for _ in range(4):
            rows = rows_for(name)
            cur = len(rows[0].SerializeToString())
            if cur == tgt:
                break
            new_len = len(name) + (tgt - cur)
            if new_len < 0:
                break
            name = "n" * new_len
    return rows_for(name)


def check_case(case):
    if case.get("kind") == "length":
        from vlib import scen

        pair = tuned_case(case["target"], case["integration"], case["entry"])
        if pair is None:
            return None
        cfg = pair[0] if case["delimited"] else pair[1]
        try:
            data, _ = (scen.write_rdflib if case["integration"] == "rdflib" else scen.write_generic)(cfg)
            got = sorted(repr([list(T.norm(t)) for t in s_]) for s_ in pyj.only_statements(pyj.parse_flat(data, "generic")))
        except Exception as exc:  # noqa: BLE001
            return Violation("C08:length-edge-rejected", f"{exc!r}", case)
        exp = sorted(repr([list(T.norm(t)) for t in s_]) for s_ in cfg["statements"])
        if got != exp:
            return Violation("C08:length-edge-content-differs", f"{len(got)} statements parsed, {len(exp)} written", case)
        return None
    if case.get("kind") == "header":
        h = bytes.fromhex(case["header"])
        want = case["mode"] == "delimited"
        if hint(h) is not want:
            return Violation(f"C08:header-{case['mode']}-misclassified", f"header {h.hex()} misclassified", case)
        return None
    return check_e2e(case, None)


def check_e2e(case, acc):
    from pyjelly import jelly

    rows = _build_rows(case)
    # non-delimited: one frame with everything
    single = jelly.RdfStreamFrame(rows=rows).SerializeToString(deterministic=True)
    # delimited: leading empty frames, options row alone or not, further cuts
    cuts = sorted({c % (len(rows) + 1) for c in case["cuts"]})
    if case["options_alone"]:
        cuts = sorted(set(cuts) | {1})
    bounds = [0, *[c for c in cuts if 0 < c < len(rows)], len(rows)]
    frames = [jelly.RdfStreamFrame() for _ in range(case["leading_empty"])]
    for a, b in zip(bounds, bounds[1:]):
        frames.append(jelly.RdfStreamFrame(rows=rows[a:b]))
    delim = pyj.frames_to_bytes(frames, True)

    first_len = len(frames[case["leading_empty"]].SerializeToString()) if len(frames) > case["leading_empty"] else 0
    opt_row_len = len(rows[0].SerializeToString())
    nt = first_len == 10 or opt_row_len == 10 or first_len >= 128 or opt_row_len >= 128 or case["leading_empty"] > 0
    if acc is not None:
        labels = []
        if first_len == 10:
            labels.append("first_frame_len_10")
        if opt_row_len == 10:
            labels.append("options_row_len_10")
        if first_len >= 128:
            labels.append("first_frame_len_ge_128")
        if first_len >= 16384:
            labels.append("first_frame_len_ge_16384")
        if case["leading_empty"]:
            labels.append("leading_empty_frames")
        acc.case(case, nt, labels)

    want = [list(map(list, map(T.norm, s))) for s in case["statements"]]
    # what the reader tells its caller about the framing, for the two streams with one and the same options row read one
    # after the other (both orders)
    from pyjelly.parse.ioutils import get_options_and_frames

    for order in ((("delimited", delim, True), ("nondelimited", single, False)), (("nondelimited", single, False), ("delimited", delim, True))):
        for label, data, mode in order:
            try:
                reported = get_options_and_frames(io.BytesIO(data))[0].params.delimited
            except Exception as exc:  # noqa: BLE001
                return Violation(f"C08:e2e-{label}-rejected", f"get_options_and_frames: {type(exc).__name__}: {exc}", case)
            if reported != mode:
                return Violation("C08:reported-mode-differs", f"{label} stream (first bytes {data[:3].hex()}): "
                                 f"get_options_and_frames reports params.delimited={reported}", case)
    for integ in ("generic", "rdflib"):
        exp = want  # rows are written by the generic encoder; both readers deliver the wire terms unchanged
        for label, data, src in (("delimited", delim, None), ("nondelimited", single, None),
                                 ("delimited", delim, "buffered"), ("delimited", delim, "raw"), ("nondelimited", single, "buffered"),
                                 ("delimited", delim, "offset"), ("nondelimited", single, "offset")):
            try:
                if src is None:
                    got = pyj.parse_flat(data, integ)
                elif src == "offset":
                    # the stream starts somewhere inside a seekable input (after a container header, say); the caller has
                    # positioned the input there
                    junk = b"\x0a\x0a\x00HEADER\x0a"
                    b = io.BytesIO(junk + data)
                    b.seek(len(junk))
                    got = pyj.parse_flat(None, integ, source=b)
                    label = f"{label}-at-offset"
                else:
                    # the first bytes may arrive in pieces: a non-seekable source whose first reads deliver 1 and 2 bytes
                    from vlib import iosim

                    raw = iosim.DribbleRaw(data, [1, 2, 4096])
                    got = pyj.parse_flat(None, integ, source=io.BufferedReader(raw) if src == "buffered" else raw)
                    label = f"{label}-{src}-source"
            except Exception as exc:  # noqa: BLE001
                return Violation(f"C08:e2e-{label}-rejected", f"{integ} {label} output failed to parse: "
                                 f"{type(exc).__name__}: {exc}; first bytes {data[:3].hex()}", case)
            got = [[list(T.norm(t)) for t in s] for s in got]
            if got != exp:
                return Violation(f"C08:e2e-{label}-differs", f"{integ} {label} parse differs from input; "
                                 f"first bytes {data[:3].hex()}", case)
    return written_by_pyjelly(case, acc)


WRITERS = [("rdflib", "serialize"), ("rdflib", "serialize_stream_only"), ("rdflib", "serialize_dest"), ("rdflib", "stream_frames"),
           ("generic", "stream_frames_gen"), ("generic", "stream_frames_sink")]


def written_by_pyjelly(case, acc):
    """'everything pyjelly writes in either mode': the same statements through the serializer entry points that let the
    caller choose the mode; the first bytes must be classified as the mode that was asked for, the non-delimited output
    must be one bare frame, and both must parse to the same content."""
    from vlib import scen

    stmts = case["statements"]
    if not stmts:
        return None
    flows = [None]
    if case["phys"] != "GRAPHS" and len(stmts) >= 2:
        # an explicit bounded flow cuts frames in either mode: written back to back without length prefixes they are,
        # by protobuf's rules, still one frame
        flows.append("FlatTriplesFrameFlow" if case["phys"] == "TRIPLES" else "FlatQuadsFrameFlow")
    for integ, entry, flow in [(i_, e_, f_) for i_, e_ in WRITERS for f_ in flows]:
        outs = {}
        for mode in (True, False):
            cfg = {"integration": integ, "entry": entry, "phys": case["phys"], "logical": 1 if case["phys"] == "TRIPLES" else 2,
                   "delimited": mode, "frame_size": 2 if flow is None else 1, "preset": case["preset"], "statements": stmts,
                   "params": {"generalized": integ == "generic", "rdf_star": integ == "generic", "stream_name": ""}}
            if flow is not None:
                cfg["flow"] = flow
            try:
                data, _ = scen.write_rdflib(cfg) if integ == "rdflib" else scen.write_generic(cfg)
            except Exception as exc:  # noqa: BLE001
                return Violation(f"C08:writer-raises:{type(exc).__name__}", f"{integ}.{entry} delimited={mode}: {exc!r}", case)
            if acc is not None:
                acc.count("pyjelly_written_outputs")
            try:
                from pyjelly.parse.ioutils import get_options_and_frames

                reported = get_options_and_frames(io.BytesIO(data))[0].params.delimited
            except Exception as exc:  # noqa: BLE001
                return Violation("C08:written-output-rejected", f"{integ}.{entry} delimited={mode}: get_options_and_frames: {exc!r}", case)
            if reported != mode:
                return Violation("C08:reported-mode-differs", f"{integ}.{entry} wrote delimited={mode}; get_options_and_frames "
                                 f"reports params.delimited={reported} (first bytes {data[:3].hex()})", case)
            if hint(data[:3]) != mode:
                return Violation("C08:written-mode-misclassified", f"{integ}.{entry} asked for delimited={mode}; the first bytes "
                                 f"{data[:3].hex()} are classified as delimited={hint(data[:3])}", case)
            if not mode:
                try:
                    wire.split_frame_raw(data)
                except Exception as exc:  # noqa: BLE001
                    return Violation("C08:nondelimited-output-not-a-bare-frame", f"{integ}.{entry}: {exc!r}", case)
            try:
                ev = pyj.only_statements(pyj.parse_flat(data, "generic"))
            except Exception as exc:  # noqa: BLE001
                return Violation("C08:written-output-rejected", f"{integ}.{entry} delimited={mode}: {type(exc).__name__}: {exc}", case)
            outs[mode] = sorted(repr([list(T.norm(t)) for t in s_]) for s_ in ev)
        if outs[True] != outs[False]:
            return Violation("C08:modes-parse-differently", f"{integ}.{entry}: the delimited and the non-delimited output of the "
                             f"same statements parse to different content", case)
    return None


LENGTH_TARGETS = [4096, 8192, 8193, 16384, 24576, 32768, 65536, 131072]


def tuned_case(target, integ, entry):
    """One statement whose literal is padded until the NON-delimited output is exactly `target` bytes long (buffer-size
    multiples, where chunked writers have their edge), or None if the length cannot be hit."""
    from vlib import scen

    def cfg(n, mode):
        return {"integration": integ, "entry": entry, "phys": "TRIPLES", "logical": 1, "delimited": mode, "frame_size": 250,
                "preset": [8, 4, 0], "params": {"generalized": integ == "generic", "rdf_star": integ == "generic", "stream_name": ""},
                "statements": [[["iri", "http://ex.org/s"], ["iri", "http://ex.org/p"], ["lit", "L" * n, None, None]],
                               [["iri", "http://ex.org/s2"], ["iri", "http://ex.org/p"], ["lit", "tail", None, None]]]}

    write = scen.write_rdflib if integ == "rdflib" else scen.write_generic
    n = max(target - 120, 1)
    # tuned on the DELIMITED output (everything fits one frame: length prefix + frame), so that a writer that goes wrong
    # at the edge cannot steer the tuning away from it
    want_len = target + len(wire.enc_varint(target))
    for _ in range(6):
        data = write(cfg(n, True))[0]
        if len(wire.split_delimited(data)) != 1:
            return None
        if len(data) == want_len:
            return cfg(n, True), cfg(n, False)
        n += want_len - len(data)
        if n < 1:
            return None
    return None


def run_lengths(spec) -> Acc:
    """Serializer output in both modes for total lengths at and around buffer-size multiples: same content, once."""
    from vlib import scen

    acc = Acc()
    known = set(spec["known"])
    for target in LENGTH_TARGETS:
        for integ, entry in (("generic", "stream_frames_gen"), ("rdflib", "serialize"), ("rdflib", "serialize_dest")):
            pair = tuned_case(target, integ, entry)
            if pair is None:
                acc.counters["length_not_reachable"] += 1
                continue
            want = None
            for cfg in pair:
                case = {"kind": "length", "target": target, "integration": integ, "entry": entry, "delimited": cfg["delimited"]}
                acc.evaluations += 1
                acc.counters["tuned_length_outputs"] += 1
                acc.nontrivial.add(f"{target}:{integ}:{entry}:{cfg['delimited']}")
                v = None
                try:
                    data, _ = (scen.write_rdflib if integ == "rdflib" else scen.write_generic)(cfg)
                    ev = pyj.only_statements(pyj.parse_flat(data, "generic"))
                    # (as multisets: an rdflib container does not keep the order, duplicates must still show)
                    got = sorted(repr([list(T.norm(t)) for t in s_]) for s_ in ev)
                    exp = sorted(repr([list(T.norm(t)) for t in s_]) for s_ in cfg["statements"])
                    if hint(data[:3]) != cfg["delimited"]:
                        v = Violation("C08:written-mode-misclassified", f"{len(data)}-byte output of {integ}.{entry}", case)
                    elif got != exp:
                        v = Violation("C08:length-edge-content-differs", f"{integ}.{entry} delimited={cfg['delimited']}, {len(data)} bytes: "
                                      f"{len(got)} statements parsed, {len(exp)} written", case)
                except Exception as exc:  # noqa: BLE001
                    v = Violation("C08:length-edge-rejected", f"{integ}.{entry} delimited={cfg['delimited']} target {target}: {exc!r}", case)
                if v is not None and v.signature not in known:
                    acc.violations.append(v.to_json())
                    return acc
    return acc


def run_shard(spec) -> Acc:
    if spec["part"] == "lengths":
        return run_lengths(spec)
    if spec["part"] == "exhaustive":
        return run_exhaustive(spec)
    acc = Acc()
    hyp_search(e2e_case(), check_e2e, acc, seed=spec["seed"] * 1000 + spec["shard"],
               max_examples=spec["n"], known=set(spec["known"]))
    return acc


def plan(tier, seed):
    specs = []
    n = 120 if tier == "quick" else 4000
    for sh in range(8 if tier == "quick" else 16):
        specs.append({"part": "e2e", "shard": sh, "n": n})
    top = (1 << 21) + 1
    # 14 shards of L ranges (weights: small L are more expensive), 1 shard adds the non-delimited side
    edges = [0, 64, 128, 16384] + [16384 + i * ((top - 16384) // 10) for i in range(1, 10)] + [top]
    for i, (lo, hi) in enumerate(zip(edges, edges[1:])):
        specs.append({"part": "exhaustive", "lo": lo, "hi": hi, "nondelimited": i == 0})
    specs.append({"part": "lengths", "shard": 900})
    return specs
